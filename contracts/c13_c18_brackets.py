"""C13 (pause/resume bracket of the snapshot operations) and C18 (the schedule lock is released on
every exit).  The callees between the bracketing calls are abstracted by contracts that may
raise at every call / await (incl. cancellation), so the postcondition is proved for every exit.
"""
import ast
import asyncio
import inspect

from pyvc.api import *  # noqa: F401,F403
from pyvc.harness import harness, structural
from ramses_rf import gateway as G
from ramses_rf.system import schedule as S
from ramses_tx import exceptions as exc
from ramses_tx import gateway as TXG


def may_raise(tag):
    """A callee / await that returns, or raises something (incl. cancellation)."""
    k = sym_choice(tag, ["ok", "error", "cancelled"])
    if k == "error":
        raise exc.ProtocolSendFailed(tag)
    if k == "cancelled":
        raise asyncio.CancelledError()


# ---- C13 -----------------------------------------------------------------------------------------------
class FakeDevice:
    def __init__(self, name):
        self.name = name

    @property
    def _msg_db(self):
        may_raise("msg_db_" + self.name)
        return []


def pause_stub(self, *args):
    self._ghost_paused += 1


def resume_stub(self):
    self._ghost_resumed += 1
    return ()


def schema_stub(self):
    may_raise("schema")
    return {}


@harness("C13", stubs={G.Gateway._pause: pause_stub, G.Gateway._resume: resume_stub, G.Gateway.schema.fget: schema_stub})
def get_state_always_resumes():
    """Gateway.get_state: on every exit -- return or an exception from anything it reads -- the
    engine has been resumed exactly as often as it was paused."""
    gwy = new_object(G.Gateway, devices=[FakeDevice("a"), FakeDevice("b")], _zzz=None, _ghost_paused=0, _ghost_resumed=0)
    o = outcome(gwy.get_state, sym_bool("include_expired"))
    check(gwy._ghost_paused == 1, "get_state pauses the engine once")
    check(gwy._ghost_resumed == gwy._ghost_paused, "the engine is resumed on every exit of get_state")
    if not o.ok:
        cover("exceptional exit")


def protocol_factory_stub(*args, **kwargs):
    may_raise("protocol_factory")
    return opaque("protocol")


class FakeTmpTransport:
    def get_extra_info(self, name):
        return asyncio.sleep(0)


async def transport_factory_stub(*args, **kwargs):
    may_raise("transport_factory")
    return FakeTmpTransport()


@harness("C13", stubs={G.Gateway._pause: pause_stub, G.Gateway._resume: resume_stub, G.protocol_factory: protocol_factory_stub,
                       G.transport_factory: transport_factory_stub})
def restore_always_resumes():
    """Gateway._restore_cached_packets: resumed on every exit, incl. cancellation at an await."""
    gwy = new_object(G.Gateway, _enforce_known_list=False, _include={}, _exclude={}, _msg_handler=opaque("handler"),
                     _ghost_paused=0, _ghost_resumed=0)
    outcome(gwy._restore_cached_packets, {"2023-11-30T13:15:00.000000": "..."})
    check(gwy._ghost_paused == 1, "_restore_cached_packets pauses the engine once")
    check(gwy._ghost_resumed == gwy._ghost_paused, "the engine is resumed on every exit of _restore_cached_packets")


# -- the bracketing calls themselves: Engine._pause / Engine._resume on the real state
class FakeLock:
    """threading.Lock by contract (single thread): acquire fails iff it is already held."""

    def __init__(self):
        self.held = False

    def acquire(self, blocking=True, timeout=-1):
        if self.held:
            return False
        self.held = True
        return True

    def release(self):
        if not self.held:
            raise RuntimeError("release unlocked lock")
        self.held = False


class FakeProtocol:
    def __init__(self, handler):
        self._msg_handler = handler
        self.writing = True

    def pause_writing(self):
        self.writing = False

    def resume_writing(self):
        self.writing = True


class FakeTransport:
    def __init__(self):
        self.reading = True

    def pause_reading(self):
        self.reading = False

    def resume_reading(self):
        self.reading = True


@harness("C13", cases=[(k,) for k in (1, 2, 3, 4)], quick=lambda k: k <= 3)
def pause_and_resume_restore_the_engine(k):
    """Engine._pause / Engine._resume, any sequence of k calls (a snapshot taken while a restore is in
    flight is a pause inside a pause): a pause of a running engine stops reception and sending, a
    pause of a paused engine is refused and changes nothing, a resume restores the handler and the
    read-only flag that were saved -- and the engine lock is never left held, so the next call is
    never refused for that reason.  Whenever the calls balance, the engine runs exactly as before."""
    handler = opaque("msg_handler")
    read_only = sym_bool("read_only")
    proto, lock = FakeProtocol(handler), FakeLock()
    tr = FakeTransport() if sym_bool("has_transport") else None
    eng = new_object(TXG.Engine, _engine_lock=lock, _engine_state=None, _protocol=proto, _transport=tr, _disable_sending=read_only)
    paused = False
    for i in range(k):
        op = sym_choice(f"op_{i}", ["pause", "resume"])
        o = outcome(eng._pause if op == "pause" else eng._resume)
        check(lock.held is False, "the engine lock is not left held by _pause / _resume, whether it succeeded or not")
        if op == "pause":
            check(o.ok == (not paused), "pausing succeeds iff the engine was running")
            check(o.ok or isinstance(o.exc, RuntimeError), "a refused pause raises RuntimeError")
            paused = True
        else:
            check(o.ok == paused, "resuming succeeds iff the engine was paused")
            check(o.ok or isinstance(o.exc, RuntimeError), "a refused resume raises RuntimeError")
            paused = False
        if paused:
            check(And(proto._msg_handler is None, eng._disable_sending is True, tr is None or tr.reading is False),
                  "while paused nothing is handled and nothing is sent")
        else:
            check(And(proto._msg_handler is handler, eng._disable_sending == read_only, tr is None or tr.reading is True,
                      Or(read_only, proto.writing is True), eng._engine_state is None),
                  "once resumed the engine runs exactly as before: same handler, same read-only flag, receiving, able to send")


class FakeConfig:
    def __init__(self, disable_discovery):
        self.disable_discovery = disable_discovery


@harness("C13", stubs={G.Gateway.schema.fget: schema_stub})
def get_state_leaves_the_engine_as_it_was():
    """Gateway.get_state over the real Engine._pause / _resume: whether it returns, fails on something it
    reads, or is refused because the engine is already paused (a restore is in flight), the engine is
    afterwards in the state it was in before -- running with its handler and read-only flag, or
    still paused for the operation in flight -- and the engine lock is free."""
    handler = opaque("msg_handler")
    read_only = sym_bool("read_only")
    proto, lock, tr = FakeProtocol(handler), FakeLock(), FakeTransport()
    no_disc = sym_bool("disable_discovery")
    gwy = new_object(G.Gateway, devices=[FakeDevice("a")], _zzz=None, _engine_lock=lock, _engine_state=None, _protocol=proto,
                     _transport=tr, _disable_sending=read_only, config=FakeConfig(no_disc))
    in_flight = sym_bool("a_restore_is_in_flight")
    if in_flight:
        gwy._pause()
    o = outcome(gwy.get_state, sym_bool("include_expired"))
    check(lock.held is False, "the engine lock is free after get_state, however it ends")
    if in_flight:
        check(not o.ok, "a snapshot during a restore is refused")
        check(And(gwy._engine_state is not None, proto._msg_handler is None), "and the restore in flight is still paused, to be resumed by its owner")
        r = outcome(gwy._resume)
        check(r.ok, "the owner's resume then succeeds")
    check(And(proto._msg_handler is handler, gwy._disable_sending == read_only, tr.reading is True, Or(read_only, proto.writing is True),
              gwy._engine_state is None, gwy.config.disable_discovery == no_disc),
          "the gateway runs exactly as before the snapshot: still receiving, still able to send, discovery as it was")


# ---- C18 -----------------------------------------------------------------------------------------------
class FakeTcs:
    """The lock of the real ScheduleSync mixin (zone_lock_idx), with _obtain_lock by contract."""

    def __init__(self):
        self.zone_lock_idx = None
        self.ghost_obtained = False

    async def _obtain_lock(self, zone_idx):
        may_raise("obtain_lock")  # e.g. TimeoutError after 3 minutes: the lock is not taken
        self.zone_lock_idx = zone_idx
        self.ghost_obtained = True

    def _release_lock(self):
        self.zone_lock_idx = None

    async def _schedule_version(self, force_io=False):
        may_raise("schedule_version")
        return sym_int("global_ver", 0, 65535), True


class FakeCtl:
    id = "01:145038"


class FakeGwy:
    async def async_send_cmd(self, cmd, **kwargs):
        may_raise("send_" + str(len(ghost("sends"))))
        ghost("sends").append(cmd)
        return opaque("pkt")


class FakeMsg:
    def __init__(self, pkt):
        self.payload = {"frag_number": 1, "total_frags": 1, "fragment": "00"}


def update_payload_set_stub(self, payload_set, payload):
    """Contract of _update_payload_set for this purpose: some payload set comes back; it may
    complete the schedule (or not: another fragment is then asked for)."""
    if sym_choice("after_frag_" + str(len(ghost("sends"))), ["complete", "more"]) == "complete":
        self._full_schedule = {"zone_idx": "01", "schedule": []}
        return [payload]
    if len(ghost("sends")) >= 2:
        assume(False)  # (bounded: at most two fragment exchanges are unrolled)
    return [payload, None]


def get_schedule_fragment_stub(*args):
    return opaque("cmd")


@harness("C18", stubs={S.Schedule._update_payload_set: update_payload_set_stub}, subst={S.Message: FakeMsg,
                                                                                     S.Command.get_schedule_fragment.__func__: get_schedule_fragment_stub})
def get_schedule_leaves_nothing_behind():
    """Schedule._get_schedule: if the zone lock was obtained then, on every exit -- normal, an
    error from any send / version query, or cancellation at any await -- it is released."""
    tcs = FakeTcs()
    sch = new_object(S.Schedule, idx="01", tcs=tcs, ctl=FakeCtl(), _gwy=FakeGwy(), _full_schedule={}, _payload_set=[None],
                     _global_ver=0, _sched_ver=0)
    outcome(sch._get_schedule, force_io=sym_bool("force_io"))
    check(tcs.zone_lock_idx is None, "no zone lock is left behind by _get_schedule, however it ends")
    if tcs.ghost_obtained:
        cover("lock was obtained")


def full_sched_to_fragz_stub(full_schedule):
    return ["AA", "BB"]


def set_schedule_fragment_stub(*args):
    return opaque("cmd")


class PassThroughSchema:
    def __call__(self, x):
        return x


@harness("C18", stubs={S.full_sched_to_fragz: full_sched_to_fragz_stub},
         subst={S.Command.set_schedule_fragment.__func__: set_schedule_fragment_stub})
def failed_write_leaves_nothing_behind():
    """Schedule.set_schedule: if writing any fragment (or the version query that follows) fails or is
    cancelled, the zone lock is released and the zone's cached schedule is still the old one --
    it never keeps a schedule the controller did not accept."""
    tcs = FakeTcs()
    old = {"zone_idx": "01", "schedule": ["old"]}
    sch = new_object(S.Schedule, idx="01", tcs=tcs, ctl=FakeCtl(), _gwy=FakeGwy(), _full_schedule=old, _fragments=[],
                     _global_ver=7, _sched_ver=7)
    new = [{"day_of_week": d, "switchpoints": [{"time_of_day": "06:30", "heat_setpoint": 21.0}]} for d in range(7)]
    o = outcome(sch.set_schedule, new)
    check(tcs.zone_lock_idx is None, "no zone lock is left behind by set_schedule, however it ends")
    if not o.ok:
        cover("the write failed")
        check(sch._full_schedule is old, "a failed write leaves the cached schedule as it was")
    else:
        check(sch._full_schedule is not old and sch._sched_ver == sch._global_ver, "a completed write caches the new schedule at the version read back")


# -- the fetch loop with the real _update_payload_set, while the controller's schedule changes under it
class VerGwy:
    """The controller by contract: it answers the fragment asked for from the version of the schedule
    it holds at that exchange (the version changes at most once during the transfer, at any point)."""

    def __init__(self, change_after, totals):
        self.change_after, self.totals, self.exchanges = change_after, totals, 0

    async def async_send_cmd(self, cmd, **kwargs):
        self.exchanges += 1
        if self.exchanges > 8:
            assume(False)  # (bounded: a transfer of <= 3+3 fragments with one change needs at most 7)
        ver = 1 if self.exchanges <= self.change_after else 2
        frag_num = cmd[1]
        self.last_total = self.totals[ver]
        if self.totals[ver] == 0:  # this version of the zone has no schedule
            return {"frag_number": frag_num, "total_frags": None, "fragment": None}
        if frag_num > self.totals[ver]:
            raise exc.ProtocolSendFailed("no such fragment in this version: no reply")
        return {"frag_number": frag_num, "total_frags": self.totals[ver], "fragment": ("ver", ver)}


class VerMsg:
    def __init__(self, pkt):
        self.payload = pkt


class VerTcs(FakeTcs):
    """The system's lock, plus _schedule_version by contract: a forced query is one more exchange with the SAME
    controller and returns the change counter it holds at that exchange (1 before the change, 2 after)."""

    def __init__(self):
        super().__init__()
        self.gwy = None

    async def _schedule_version(self, force_io=False):
        g = self.gwy
        g.exchanges += 1
        if g.exchanges > 8:
            assume(False)
        return (1 if g.exchanges <= g.change_after else 2), True


def ver_fragment_cmd_stub(cls, ctl_id, idx, frag_num, size):
    return ("RQ|0404", frag_num)


class FakeZone:
    def __init__(self, idx, tcs, gwy):
        self.id, self.idx, self.ctl, self.tcs, self._gwy = "01:145038_" + idx, idx, FakeCtl(), tcs, gwy


def ver_fragz_to_full_sched_stub(fragments):
    """Contract of fragz_to_full_sched on a full set: the schedule if every fragment is of one version,
    else zlib.error -- zlib rejects a blob stitched from two versions (assumption A12)."""
    vers = [f[1] for f in fragments]
    if any(v != vers[0] for v in vers):
        raise S.zlib.error("incorrect data check")
    return {"zone_idx": "01", "schedule": ["days"], "version": vers[0]}


@harness("C18", cases=[(n, t1, t2) for n in (0, 1, 2, 3) for t1 in (0, 1, 2, 3) for t2 in (0, 1, 2, 3)],
         quick=lambda n, t1, t2: (n, t1, t2) in ((0, 1, 1), (0, 2, 2), (2, 2, 2), (3, 3, 3), (1, 1, 1), (2, 3, 2), (3, 2, 3), (2, 1, 1), (2, 2, 1), (0, 0, 0), (2, 0, 2), (2, 2, 0)),
         stubs={S.fragz_to_full_sched: ver_fragz_to_full_sched_stub, S.Message: VerMsg,
                S.Command.get_schedule_fragment: ver_fragment_cmd_stub})
def fetch_survives_a_change_on_the_controller(n, t1, t2):
    """Schedule._get_schedule with the real _update_payload_set / _proc_payload_set, from any fragment
    set left behind by earlier transfers or eavesdropping (n slots, each empty or holding a fragment
    of an older or of the current version; n == 0: the zone still has the module's EMPTY_PAYLOAD_SET,
    as after __init__), while the controller's schedule changes at most once at any exchange
    (t1 -> t2 fragments): the transfer ends with a schedule of ONE version or with a protocol error --
    never a stitched schedule, never a RuntimeError/StopIteration from a full-but-unprocessed set --
    and the empty set shared with the other zones is left as it was."""
    tcs = VerTcs()
    set_global(S, "EMPTY_PAYLOAD_SET", [None])
    init = []
    for i in range(n):
        k = sym_choice(f"slot_{i}", ["empty", "stale", "current"])
        init.append(None if k == "empty" else {"frag_number": i + 1, "total_frags": n, "fragment": ("ver", 0 if k == "stale" else 1)})
    gwy = VerGwy(sym_int("change_after", 0, 8), {1: t1, 2: t2})
    tcs.gwy = gwy
    sch = S.Schedule(FakeZone("01", tcs, gwy))  # the real constructor: a zone that has not fetched anything yet
    other = S.Schedule(FakeZone("02", tcs, gwy))
    if n:
        sch._payload_set = init
    # forced: the change counter is read before the lock is taken; not forced (a zone's first fetch): inside it
    o = outcome(sch._get_schedule, force_io=sym_bool("force_io"))
    check(tcs.zone_lock_idx is None, "no zone lock is left behind by _get_schedule, however it ends")
    check(o.ok or isinstance(o.exc, (exc.ProtocolError, TimeoutError, asyncio.CancelledError)),
          "a transfer ends with a schedule or a protocol error (not a RuntimeError from a full but unprocessed fragment set)")
    check(And(get_global(S, "EMPTY_PAYLOAD_SET") == [None], other._payload_set == [None]),
          "nothing is written to the module's empty fragment set, nor to the fragment set of a zone that has fetched nothing yet")
    if o.ok:
        cover("transfer completed")
        if gwy.last_total == 0:
            check(sch._full_schedule == {"zone_idx": "01"}, "a completed transfer for a zone without a schedule holds the empty schedule")
        else:
            check(sch._full_schedule.get("version") in (1, 2), "a completed transfer holds a schedule of one version of the controller's")
        check(sch._sched_ver == sch._global_ver, "at the change counter read during the transfer")
        check(sch._sched_ver in (1, 2), "and that counter is one the controller really held during the transfer")
        if gwy.last_total != 0:
            check(sch._full_schedule.get("version") >= sch._sched_ver,
                  "the schedule kept is never OLDER than the change counter it is filed under (else it would pass for current for ever)")


def _releases_in_finally(fn, obtain="_obtain_lock", release="_release_lock"):
    """Syntactic: every statement that follows the `await ..._obtain_lock(...)` statement in the
    function body is a Try whose finalbody calls ..._release_lock(), or comes after such a Try."""
    tree = ast.parse(inspect.getsource(fn).lstrip() if not inspect.getsource(fn).startswith(" ") else __import__("textwrap").dedent(inspect.getsource(fn)))
    body = tree.body[0].body
    idx = next((i for i, st in enumerate(body) if obtain in ast.unparse(st)), None)
    if idx is None:
        return False, "no call of " + obtain
    for st in body[idx + 1:]:
        if isinstance(st, ast.Try) and any(release in ast.unparse(x) for x in st.finalbody):
            return True, "the statements after " + obtain + " are guarded by try/finally: " + release
        return False, f"line {st.lineno}: a statement after {obtain} is not inside try/finally with {release}"
    return False, "nothing follows " + obtain


@structural("C18")
def lock_release_is_in_a_finally():
    out = []
    for fn in (S.Schedule._get_schedule, S.Schedule.set_schedule):
        ok, detail = _releases_in_finally(fn)
        out.append((f"{fn.__qualname__}: the zone lock is released in a finally that covers everything after it was obtained", ok, detail))
    return out


@structural("C13")
def resume_is_in_a_finally():
    out = []
    for fn in (G.Gateway.get_state, G.Gateway._restore_cached_packets):
        ok, detail = _releases_in_finally(fn, "self._pause()", "self._resume()")
        out.append((f"{fn.__qualname__}: _resume() is in a finally that covers everything after _pause()", ok, detail))
    return out


# ---- C18: the lock itself -- ScheduleSync._obtain_lock / _release_lock ------------------------------------------
from datetime import datetime as _dt, timedelta as _td  # noqa: E402

from ramses_rf.system import heat as SH  # noqa: E402


class TypestateLock:
    """threading.Lock typestate (one thread): acquire requires free, release requires held."""

    def __init__(self):
        self.held = False
        self.misused = False

    def acquire(self):
        if self.held:
            self.misused = True  # would block the event loop for good
        self.held = True

    def release(self):
        if not self.held:
            self.misused = True
        self.held = False


class ClockOfTheHarness:
    """datetime.now() as the schedule module sees it: a non-decreasing clock the harness advances."""

    @staticmethod
    def now():
        return _dt(2024, 1, 1) + _td(milliseconds=ghost("elapsed_ms")[-1])


async def sleep_while_waiting_for_the_lock(delay, result=None):
    """asyncio.sleep as awaited by _obtain_lock: time passes (a little, or past the 3 minutes), the zone
    that holds the lock may release it meanwhile, and the waiter may be cancelled (its caller gave up)."""
    tcs, me = ghost("tcs")[0], ghost("me")[0]
    n = len(ghost("sleeps"))
    ghost("sleeps").append(delay)
    ghost("owned_while_suspended").append(tcs.zone_lock_idx == me)
    ghost("elapsed_ms").append(ghost("elapsed_ms")[-1] + (5 if sym_bool(f"only_a_moment_passes_{n}") else 200_000))
    if tcs.zone_lock_idx is not None and tcs.zone_lock_idx != me and sym_bool(f"the_other_zone_releases_{n}"):
        tcs.zone_lock_idx = None
    if sym_bool(f"cancelled_while_waiting_{n}"):
        raise asyncio.CancelledError()
    if n >= 3:
        assume(False)  # bounded: at most 4 waits are unrolled
    return result


@harness("C18", stubs={asyncio.sleep: sleep_while_waiting_for_the_lock})
def obtaining_the_lock_is_all_or_nothing():
    """ScheduleSync._obtain_lock(zone): from a free lock, or one held by another zone that may release it at
    any wait (or never: the 3 minutes run out), with cancellation possible at every wait: it returns only
    when this zone owns the lock; when it raises (TimeoutError, or the caller's cancellation) this zone does
    NOT own it; the zone never owns the lock while suspended inside _obtain_lock (where no finally of the
    caller covers it yet); the inner threading lock is never left held.  _release_lock frees it."""
    set_global(SH, "dt", ClockOfTheHarness)
    ghost("elapsed_ms").append(0)
    lock = TypestateLock()
    held_by = sym_choice("lock_held_by", [None, "02"])
    tcs = new_object(SH.ScheduleSync, zone_lock=lock, zone_lock_idx=held_by)
    ghost("tcs").append(tcs)
    ghost("me").append("01")
    o = outcome(run_coro, tcs._obtain_lock("01"))
    check(Not(lock.misused) and Not(lock.held), "the inner lock is taken and given back in pairs and never left held")
    check(all(Not(x) for x in ghost("owned_while_suspended")), "the zone never owns the schedule lock while suspended inside _obtain_lock")
    if o.ok:
        cover("obtained")
        check(tcs.zone_lock_idx == "01", "_obtain_lock returns only when this zone owns the lock")
    else:
        cover("not obtained")
        check(isinstance(o.exc, (TimeoutError, asyncio.CancelledError)), "_obtain_lock gives up with TimeoutError (or is cancelled)")
        check(tcs.zone_lock_idx != "01", "a wait for the lock that is given up or cancelled does not leave the lock with this zone")
    if o.ok:
        tcs._release_lock()
        check(And(tcs.zone_lock_idx is None, Not(lock.held), Not(lock.misused)), "_release_lock frees the schedule lock")
