"""C09 / C07 (partial, bounded in the number of events): the send machinery through an episode.

The real ProtocolContext (send_cmd, _check_buffer_for_cmd, set_state with its nested effect_state and
expire_state_on_timeout, _send_cmd, the state classes' pkt_rcvd / cmd_sent) is driven by an event
loop *contract* that is faithful to asyncio's ordering rules, so that only realisable schedules
are explored:

 * the ready queue is FIFO; call_soon / create_task append at the tail; whatever happens outside
   (a packet arrives, a sleep ends, the caller's timeout fires) also appends at the tail, at a
   moment of the harness's (symbolic) choosing;
 * a task's first step is deferred (tail), a cancelled task never resumes (even when its wake-up
   was already queued), a completed future wakes its waiter through the queue (one more hop);
 * `await asyncio.wait_for(fut, t)`: the caller is parked; when the timeout fires the future is
   cancelled first and the caller wakes one hop later with TimeoutError (CPython 3.12 semantics).

Coroutines of the real code are really suspended at those awaits (pyvc/tasks.py).
Bounded: at most K outside events per episode, one or two callers.  Everything decided here is
"for all schedules of at most K events"; nothing about longer episodes is claimed.
"""
import asyncio

from pyvc.api import *  # noqa: F401,F403
from pyvc.harness import harness, structural
from ramses_tx import exceptions as exc
from ramses_tx import protocol as P
from ramses_tx import protocol_fsm as fsm

from .c08_discipline import FakeAddr, FakeCmd, FakePkt, FakeProtocol, FakeQos, FakeQueue


class Loop:
    """The event loop by contract (see the module docstring)."""

    def __init__(self):
        self.ready = []        # FIFO of (kind, payload)
        self.unhandled = []    # exceptions that reached the loop's exception handler

    def call_soon_threadsafe(self, fn, *args):
        self.ready.append(("call", (fn, args)))

    def create_future(self):
        return Fut(self)

    def create_task(self, coro, name=None):
        t = LoopTask(spawn(coro, start=False))
        self.ready.append(("step", t))
        return t


class LoopTask:
    def __init__(self, task):
        self.task = task
        self.is_cancelled = False
        self.sleeping = False

    def cancel(self):
        self.is_cancelled = True


class Fut(asyncio.Future):
    """asyncio.Future typestate; completing it wakes the parked waiter through the ready queue."""

    def __init__(self, loop):  # noqa: super-init-not-called
        self.loop = loop
        self.state = "pending"
        self.value = None
        self.waiter = None
        self.by_timeout = False  # cancelled by the wait_for that awaits it (its timeout fired), not by anyone else

    def done(self):
        return self.state != "pending"

    def cancelled(self):
        return self.state == "cancelled"

    def _finish(self, state, value):
        if self.state != "pending":
            raise asyncio.InvalidStateError("invalid state")
        self.state, self.value = state, value
        if self.waiter is not None:
            self.loop.ready.append(("wake", self.waiter))
            self.waiter = None

    def set_result(self, r):
        self._finish("result", r)

    def set_exception(self, e):
        self._finish("exception", e)

    def cancel(self):
        if self.state == "pending":
            self._finish("cancelled", None)

    def result(self):
        if self.state == "result":
            return self.value
        if self.state == "exception":
            raise self.value
        if self.state == "cancelled":
            raise asyncio.CancelledError()
        raise asyncio.InvalidStateError("Result is not set.")


async def wait_for_contract(fut, timeout):
    """asyncio.wait_for: park the caller on the future; it wakes when the future is done -- by the
    sender, or because the timeout fired and cancelled it (then: TimeoutError); a future that somebody
    else cancelled gives the caller CancelledError, as asyncio does."""
    ghost("waits").append(timeout)
    if not fut.done():
        fut.waiter = ghost("current_caller")[-1]
        suspend("wait_for")
    if fut.state == "cancelled" and fut.by_timeout:
        raise TimeoutError()
    return fut.result()  # a future cancelled by anyone else: CancelledError propagates to the caller


async def sleep_contract(delay, result=None):
    """asyncio.sleep: the task is parked until the harness lets the time pass."""
    ghost("sleeps").append(delay)
    if ghost("ctx"):  # (C08 waits_double_per_unanswered_attempt) which attempt this wait belongs to, and for what
        c = ghost("ctx")[0]
        ghost("waits_of_attempts").append((delay, c._cmd_tx_count, isinstance(c._state, fsm.WantEcho)))
    suspend("sleep")
    return result


def running_loop_contract():
    return ghost("loop")[0]


async def radio_write(cmd):
    ghost("sent").append(cmd)


def last_sent():
    return ghost("sent")[-1] if ghost("sent") else None


def make_context(loop):
    ctx = new_object(fsm.ProtocolContext, _protocol=FakeProtocol(loop), _loop=loop, echo_timeout=0.5, reply_timeout=0.5,
                     max_retry_limit=3, max_buffer_size=32, _lock=fsm.Lock(), _fut=None, _que=FakeQueue(32),
                     _expiry_timer=None, _multiplier=0, _state=None, _send_fnc=radio_write, _cmd=None, _qos=None,
                     _cmd_tx_count=0, _cmd_tx_limit=0)
    ctx._state = fsm.IsInIdle(ctx)
    return ctx


def run_one(loop, ctx):
    """Run the entry at the head of the ready queue, as the loop would."""
    kind, x = loop.ready.pop(0)
    if kind == "call":
        fn, args = x
        o = outcome(fn, *args)
        if not o.ok:
            loop.unhandled.append(o.exc)
    elif kind == "pkt":
        o = outcome(ctx.pkt_received, x)
        if not o.ok:
            loop.unhandled.append(o.exc)
    elif kind == "cancel_fut":   # the caller's timeout fired: wait_for cancels what it waits for
        if not x.done():
            x.by_timeout = True
            x.cancel()
    elif kind == "caller":       # a caller's task gets its first step: send_cmd runs up to its await
        ghost("current_caller").append(x)
        start(x)
    elif kind == "step":         # first step of a task
        if not x.is_cancelled:
            start(x.task)
            settle_task(loop, x)
    elif kind == "wake":         # a parked task is woken
        lt = x
        if isinstance(lt, LoopTask):
            if lt.is_cancelled:  # Task.cancel() before the wake-up ran: CancelledError is thrown in, the rest never runs
                return
            lt.sleeping = False
            resume(lt.task)
            settle_task(loop, lt)
        else:                    # a caller (the harness keeps its task)
            resume(lt)


def settle_task(loop, lt):
    t = lt.task
    if t.done and t.exc is not None:
        loop.unhandled.append(t.exc)  # "Task exception was never retrieved"
    elif not t.done and t.waiting == "sleep":
        lt.sleeping = True


STUBS = {asyncio.wait_for: wait_for_contract, asyncio.sleep: sleep_contract, asyncio.get_running_loop: running_loop_contract}


@harness(("C09", "C07"), cases=[(k, w, r) for k in (1, 2, 3) for w in (True, False) for r in (0, 1)], quick=lambda k, w, r: k <= 2, budget_s=3600, stubs=STUBS)
def one_command_episode(k, wait_for_reply, retries):
    """One caller sends one command; then any k outside events in any realisable order -- the echo
    arrives, the reply arrives, an unrelated packet arrives, the running echo/reply timer expires,
    the caller's own timeout fires -- interleaved with the loop's queued work.  Afterwards the
    loop is drained and the timers are let run out.  Then: no exception reached the event loop
    (no internal consistency check tripped), the sender is idle with nothing in flight, the caller
    has been answered with a packet of its own command or a protocol error, and a fresh command is
    accepted and transmitted."""
    loop = Loop()
    ghost("loop").append(loop)
    ctx = make_context(loop)
    cmd = FakeCmd("cmd")
    cmd.src = FakeAddr("18:000730")
    qos = FakeQos(retries, 3.0, wait_for_reply)
    echo = FakePkt(cmd.tx_header, src="18:123456", dst="01:145038")
    reply = FakePkt(cmd.rx_header)
    other = FakePkt("30C9| I|01:145038", src="01:145038", dst="01:145038")
    caller = spawn(ctx.send_cmd(radio_write, cmd, 2, qos), start=False)
    ghost("current_caller").append(caller)
    start(caller)
    check(caller.waiting == "wait_for", "the caller is parked until its command is answered")
    fut = ctx._que.items[0][4] if ctx._que.items else ctx._fut
    timed_out = False
    for i in range(k):
        # let the loop run some of its queued work first (any amount)
        n = 0
        while loop.ready and n < 12 and sym_bool(f"run_queued_{i}_{n}"):
            run_one(loop, ctx)
            n += 1
        ev = sym_choice(f"event_{i}", ["echo", "reply", "other", "timer", "caller_timeout", "nothing"])
        if ev in ("echo", "reply") and not ghost("sent"):
            assume(False)  # nothing has been transmitted yet: there is nothing to echo or to answer
        if ev == "echo":
            loop.ready.append(("pkt", echo))
        elif ev == "reply":
            loop.ready.append(("pkt", reply))
        elif ev == "other":
            loop.ready.append(("pkt", other))
        elif ev == "timer":
            lt = ctx._expiry_timer
            if lt is None or not lt.sleeping or lt.is_cancelled:
                assume(False)  # no timer is running now: not an event
            lt.sleeping = False
            loop.ready.append(("wake", lt))
        elif ev == "caller_timeout":
            if timed_out or caller.done or fut.done():
                assume(False)
            timed_out = True
            loop.ready.append(("cancel_fut", fut))
    # quiescence: drain the queue; when it is empty let the running timer expire; repeat
    steps = 0
    while True:
        steps += 1
        if steps > 80:
            assume(False)
        if loop.ready:
            run_one(loop, ctx)
            continue
        lt = ctx._expiry_timer
        if lt is not None and lt.sleeping and not lt.is_cancelled:
            lt.sleeping = False
            loop.ready.append(("wake", lt))
            continue
        break
    check(len(loop.unhandled) == 0, "no exception is left unhandled in the event loop (no internal consistency check trips)")
    check(caller.done, "the caller has been answered")
    if caller.done:
        if caller.ok:
            check(caller.value is echo or caller.value is reply, "the packet returned belongs to the command (its echo or its reply)")
            if wait_for_reply:
                check(caller.value is reply, "when a reply is awaited, the packet returned is the reply")
        else:
            check(isinstance(caller.exc, exc.ProtocolError), "a send that does not return a packet raises a protocol error")
            if not timed_out:
                check(len(ghost("sent")) == 1 + retries, "a send whose caller's timeout did not fire fails only after its whole retry budget was transmitted")
    check(And(isinstance(ctx._state, fsm.IsInIdle), ctx._cmd is None, ctx._qos is None, ctx._fut is None or ctx._fut.done(),
              ctx._expiry_timer is None), "once traffic stops the sender is idle with nothing in flight")
    check(len(ghost("sent")) <= 1 + qos.max_retries, "never transmitted more often than the retry budget allows")
    # a fresh command is served
    before = len(ghost("sent"))
    cmd2 = FakeCmd("next")
    cmd2.src = FakeAddr("18:000730")
    caller2 = spawn(ctx.send_cmd(radio_write, cmd2, 2, FakeQos(0, 3.0, False)), start=False)
    ghost("current_caller").append(caller2)
    start(caller2)
    n = 0
    while loop.ready and n < 20:
        run_one(loop, ctx)
        n += 1
    check(And(len(ghost("sent")) == before + 1, last_sent() is cmd2), "a fresh command is then transmitted")
    check(len(loop.unhandled) == 0, "and still nothing reached the loop's exception handler")


class OtherCmd(FakeCmd):
    """A second, different command (another code): its echo and reply have other headers."""

    def __init__(self, name):
        self.name = name
        self.tx_header = "2309|RQ|01:145038|01"
        self._hdr_ = self._hdr = self.tx_header
        self.rx_header = "2309|RP|01:145038|01"
        self.src = FakeAddr("18:000730")


@harness(("C07", "C09"), cases=[(k,) for k in (2, 3)], quick=lambda k: k <= 2, budget_s=3600, stubs=STUBS)
def two_callers_get_their_own_packets(k):
    """Two callers, A then B (different commands, B queued behind A), and any k outside events among:
    A's echo / A's reply / B's echo / B's reply arrive, the running timer expires, A's caller times
    out.  When everything has settled: each caller that got a packet got one of ITS OWN command,
    the other gets a packet of its own or a protocol error, nothing reached the loop's exception
    handler and the sender is idle."""
    loop = Loop()
    ghost("loop").append(loop)
    ctx = make_context(loop)
    a, b = FakeCmd("A"), OtherCmd("B")
    a.src = FakeAddr("18:000730")
    pk = {"echo_a": FakePkt(a.tx_header, src="18:123456", dst="01:145038"), "reply_a": FakePkt(a.rx_header),
          "echo_b": FakePkt(b.tx_header, src="18:123456", dst="01:145038"), "reply_b": FakePkt(b.rx_header)}
    callers = []
    for cmd in (a, b):
        t = spawn(ctx.send_cmd(radio_write, cmd, 2, FakeQos(0, 3.0, True)), start=False)
        ghost("current_caller").append(t)
        start(t)
        callers.append(t)
    fut_a = ctx._que.items[0][4]
    timed_out = False
    for i in range(k):
        n = 0
        while loop.ready and n < 12 and sym_bool(f"run_queued_{i}_{n}"):
            run_one(loop, ctx)
            n += 1
        ev = sym_choice(f"event_{i}", ["echo_a", "reply_a", "echo_b", "reply_b", "timer", "a_times_out"])
        if ev in pk:
            if not any(c is (a if ev.endswith("a") else b) for c in ghost("sent")):
                assume(False)  # that command has not been transmitted yet
            loop.ready.append(("pkt", pk[ev]))
        elif ev == "timer":
            lt = ctx._expiry_timer
            if lt is None or not lt.sleeping or lt.is_cancelled:
                assume(False)
            lt.sleeping = False
            loop.ready.append(("wake", lt))
        else:
            if timed_out or callers[0].done or fut_a.done():
                assume(False)
            timed_out = True
            loop.ready.append(("cancel_fut", fut_a))
    steps = 0
    while True:
        steps += 1
        if steps > 120:
            assume(False)
        if loop.ready:
            run_one(loop, ctx)
            continue
        lt = ctx._expiry_timer
        if lt is not None and lt.sleeping and not lt.is_cancelled:
            lt.sleeping = False
            loop.ready.append(("wake", lt))
            continue
        break
    check(len(loop.unhandled) == 0, "no exception is left unhandled in the event loop (no internal consistency check trips)")
    for t, cmd, mine in ((callers[0], a, ("echo_a", "reply_a")), (callers[1], b, ("echo_b", "reply_b"))):
        check(t.done, "every caller has been answered")
        if t.done and t.ok:
            cover("caller " + cmd.name + " got a packet")
            check(t.value is pk[mine[1]], "a caller that awaits a reply gets the reply to ITS command, never another command's packet")
        elif t.done:
            check(isinstance(t.exc, exc.ProtocolError), "a send that does not return a packet raises a protocol error")
    check(And(isinstance(ctx._state, fsm.IsInIdle), ctx._cmd is None, ctx._fut is None or ctx._fut.done(), ctx._expiry_timer is None,
              len(ctx._que.items) == 0), "once traffic stops the sender is idle with nothing in flight and nothing queued")


def _let_time_pass(loop, ctx, callers, limit):
    """Quiescence: drain the ready queue; when it is empty let the running echo/reply timer expire;
    when there is none let the timeout of a caller that is still waiting fire; repeat."""
    steps = 0
    while True:
        steps += 1
        if steps > limit:
            assume(False)
        if loop.ready:
            run_one(loop, ctx)
            continue
        lt = ctx._expiry_timer
        if lt is not None and lt.sleeping and not lt.is_cancelled:
            lt.sleeping = False
            loop.ready.append(("wake", lt))
            continue
        pending = [(t, f) for t, f in callers if not t.done and f is not None and not f.done()]
        if pending:
            loop.ready.append(("cancel_fut", pending[0][1]))
            continue
        break


@harness(("C09", "C07"), cases=[(k, w) for k in (1, 2, 3) for w in (True, False)], quick=lambda k, w: k <= 2, budget_s=3600, stubs=STUBS)
def episode_with_disconnect(k, wait_for_reply):
    """One caller sends one command (one retry allowed); then any k outside events, interleaved anywhere
    with the loop's queued work, among: the echo / the reply arrives, the running timer expires, the caller's
    timeout fires, the transport reports that the connection is LOST, the transport reports that a
    connection is MADE.  Then time passes until nothing is left to happen.  On every such schedule:
    nothing reached the loop's exception handler, the caller was answered with a packet of its command or
    a protocol error, the sender is idle -- inactive if disconnected -- with nothing in flight; while
    disconnected a send is refused with a protocol error at once; after (re)connecting a fresh command
    is transmitted."""
    loop = Loop()
    ghost("loop").append(loop)
    ctx = make_context(loop)
    cmd = FakeCmd("cmd")
    cmd.src = FakeAddr("18:000730")
    qos = FakeQos(1, 3.0, wait_for_reply)
    echo = FakePkt(cmd.tx_header, src="18:123456", dst="01:145038")
    reply = FakePkt(cmd.rx_header)
    connected = True
    if sym_bool("the_loss_was_reported_just_before_the_send"):
        # the transport's connection_lost callback is already queued when the caller runs: the sender is
        # still idle when send_cmd queues the command, and inactive when the dequeue runs
        connected = False
        loop.ready.append(("call", (ctx.connection_lost, (None,))))
    caller = spawn(ctx.send_cmd(radio_write, cmd, 2, qos), start=False)
    ghost("current_caller").append(caller)
    start(caller)
    fut = ctx._que.items[0][4] if ctx._que.items else ctx._fut
    timed_out = False
    for i in range(k):
        n = 0
        while loop.ready and n < 12 and sym_bool(f"run_queued_{i}_{n}"):
            run_one(loop, ctx)
            n += 1
        ev = sym_choice(f"event_{i}", ["echo", "reply", "timer", "caller_timeout", "lost", "made"])
        if ev in ("echo", "reply"):
            if not ghost("sent") or not connected:
                assume(False)  # nothing transmitted yet / nothing is received while disconnected
            loop.ready.append(("pkt", echo if ev == "echo" else reply))
        elif ev == "timer":
            lt = ctx._expiry_timer
            if lt is None or not lt.sleeping or lt.is_cancelled:
                assume(False)
            lt.sleeping = False
            loop.ready.append(("wake", lt))
        elif ev == "caller_timeout":
            if timed_out or caller.done or fut.done():
                assume(False)
            timed_out = True
            loop.ready.append(("cancel_fut", fut))
        elif ev == "lost":
            if not connected:
                assume(False)
            connected = False
            loop.ready.append(("call", (ctx.connection_lost, (None,))))
        else:
            if connected:
                assume(False)
            connected = True
            loop.ready.append(("call", (ctx.connection_made, (None,))))
    _let_time_pass(loop, ctx, [(caller, fut)], 100)
    check(len(loop.unhandled) == 0, "no exception is left unhandled in the event loop (no internal consistency check trips)")
    check(caller.done, "the caller has been answered")
    if caller.done:
        if caller.ok:
            check(caller.value is echo or caller.value is reply, "the packet returned belongs to the command (its echo or its reply)")
        else:
            check(isinstance(caller.exc, exc.ProtocolError), "a send that does not return a packet raises a protocol error")
    check(And(isinstance(ctx._state, fsm.IsInIdle if connected else fsm.Inactive), ctx._cmd is None, ctx._qos is None,
              ctx._fut is None or ctx._fut.done(), ctx._expiry_timer is None),
          "once traffic stops the sender is idle (inactive if disconnected) with nothing in flight")
    if not connected:
        before = len(ghost("sent"))
        refused = spawn(ctx.send_cmd(radio_write, FakeCmd("while down"), 2, FakeQos(0, 3.0, False)), start=False)
        ghost("current_caller").append(refused)
        start(refused)
        check(And(refused.done, isinstance(refused.exc, exc.ProtocolError)), "while disconnected a send is refused with a protocol error at once")
        check(len(ghost("sent")) == before, "and nothing is transmitted")
        loop.ready.append(("call", (ctx.connection_made, (None,))))
        _let_time_pass(loop, ctx, [], 40)
        check(isinstance(ctx._state, fsm.IsInIdle), "a connection made brings the sender back to idle")
    before = len(ghost("sent"))
    cmd2 = FakeCmd("next")
    cmd2.src = FakeAddr("18:000730")
    caller2 = spawn(ctx.send_cmd(radio_write, cmd2, 2, FakeQos(0, 3.0, False)), start=False)
    ghost("current_caller").append(caller2)
    start(caller2)
    n = 0
    while loop.ready and n < 20:
        run_one(loop, ctx)
        n += 1
    check(And(len(ghost("sent")) == before + 1, last_sent() is cmd2), "a fresh command is then transmitted")
    check(len(loop.unhandled) == 0, "and still nothing reached the loop's exception handler")


class FakeTransport:
    def __init__(self, hgi_id):
        self.hgi_id = hgi_id

    def get_extra_info(self, name, default=None):
        return {"active_gwy": self.hgi_id, "is_evofw3": True}.get(name, default)


@harness("C09", stubs=STUBS)
def a_lost_connection_can_be_made_again():
    """PortProtocol.connection_made / connection_lost / connection_made (the engine is stopped and
    started again, or the dongle is re-plugged -- possibly another dongle with another id): no call
    raises, the sender is idle after each connection made and inactive after the loss, the gateway
    id in use is the one of the transport connected last, and a command is then transmitted."""
    loop = Loop()
    ghost("loop").append(loop)
    ctx = make_context(loop)
    ctx._state = fsm.Inactive(ctx)
    pr = new_object(P.PortProtocol, _loop=loop, _context=ctx, _wait_connection_made=Fut(loop), _wait_connection_lost=None,
                    _transport=None, _active_hgi=None, _exclude=[], _include=[], enforce_include=False, _pause_writing=False,
                    _is_evofw3=None, _msg_handler=None, _msg_handlers=[])
    ctx._protocol = pr
    same = sym_bool("the_same_dongle_comes_back")
    t1, t2 = FakeTransport("18:111111"), FakeTransport("18:111111" if same else "18:222222")
    o = outcome(pr.connection_made, t1, ramses=True)
    _let_time_pass(loop, ctx, [], 20)
    check(And(o.ok, isinstance(ctx._state, fsm.IsInIdle), pr._active_hgi == "18:111111"), "a connection made activates the sender and the gateway id")
    err = exc.TransportError("gone") if sym_bool("lost_with_an_error") else None
    o = outcome(pr.connection_lost, err)
    _let_time_pass(loop, ctx, [], 20)
    check(And(o.ok, isinstance(ctx._state, fsm.Inactive)), "a connection lost makes the sender inactive")
    o = outcome(pr.connection_made, t2, ramses=True)
    _let_time_pass(loop, ctx, [], 20)
    check(o.ok, "making the connection again does not raise")
    check(isinstance(ctx._state, fsm.IsInIdle), "and the sender is idle again")
    check(pr._active_hgi == t2.hgi_id, "and the gateway id in use is that of the transport now connected")
    cmd = FakeCmd("next")
    cmd.src = FakeAddr("18:000730")
    caller = spawn(ctx.send_cmd(radio_write, cmd, 2, FakeQos(0, 3.0, False)), start=False)
    ghost("current_caller").append(caller)
    start(caller)
    n = 0
    while loop.ready and n < 20:
        run_one(loop, ctx)
        n += 1
    check(And(len(ghost("sent")) == 1, last_sent() is cmd), "a fresh command is then transmitted")
    check(len(loop.unhandled) == 0, "nothing reached the loop's exception handler")


@harness(("C07", "C09"), cases=[(2,)], budget_s=3600, stubs=STUBS)
def a_second_caller_arrives_at_any_moment(k):
    """Caller A's command is under way; a second caller B (another command) calls send_cmd at ANY moment
    among k = 2 outside events -- A's echo / reply arrive, A's running timer expires, A's caller times out --
    e.g. in the very loop iteration in which A's timeout has cancelled A's future but A has not yet run.
    B's device is responsive: once B's command has been transmitted its echo and its reply arrive.  Then:
    B is transmitted exactly once and gets the reply to ITS command; A gets a packet of its own or a
    protocol error; nothing reaches the loop's exception handler; the sender ends idle."""
    loop = Loop()
    ghost("loop").append(loop)
    ctx = make_context(loop)
    a, b = FakeCmd("A"), OtherCmd("B")
    a.src = FakeAddr("18:000730")
    pk = {"echo_a": FakePkt(a.tx_header, src="18:123456", dst="01:145038"), "reply_a": FakePkt(a.rx_header),
          "echo_b": FakePkt(b.tx_header, src="18:123456", dst="01:145038"), "reply_b": FakePkt(b.rx_header)}
    ta = spawn(ctx.send_cmd(radio_write, a, 2, FakeQos(1, 3.0, True)), start=False)
    tb = spawn(ctx.send_cmd(radio_write, b, 2, FakeQos(0, 3.0, True)), start=False)
    ghost("current_caller").append(ta)
    start(ta)
    fut_a = ctx._que.items[0][4]
    timed_out = b_called = False
    for i in range(k + 1):
        n = 0
        while loop.ready and n < 12 and sym_bool(f"run_queued_{i}_{n}"):
            run_one(loop, ctx)
            n += 1
        ev = sym_choice(f"event_{i}", ["echo_a", "reply_a", "timer", "a_times_out", "b_calls"]) if i < k else "b_calls"
        if ev in pk:
            if not any(c is a for c in ghost("sent")):
                assume(False)
            loop.ready.append(("pkt", pk[ev]))
        elif ev == "timer":
            lt = ctx._expiry_timer
            if lt is None or not lt.sleeping or lt.is_cancelled:
                assume(False)
            if any(c is b for c in ghost("sent")):
                assume(False)  # B's device is responsive: B's own timers do not fire before its echo / reply arrive
            lt.sleeping = False
            loop.ready.append(("wake", lt))
        elif ev == "a_times_out":
            if timed_out or ta.done or fut_a.done():
                assume(False)
            timed_out = True
            loop.ready.append(("cancel_fut", fut_a))
        elif not b_called:
            b_called = True
            loop.ready.append(("caller", tb))
        elif i < k:
            assume(False)  # B calls once
    steps = 0
    told = []
    while True:
        steps += 1
        if steps > 150:
            assume(False)
        if loop.ready:
            run_one(loop, ctx)
            continue
        if any(c is b for c in ghost("sent")) and not tb.done and len(told) < 2:
            told.append(("echo_b", "reply_b")[len(told)])  # B's device answers: first the echo, then the reply
            loop.ready.append(("pkt", pk[told[-1]]))
            continue
        lt = ctx._expiry_timer
        if lt is not None and lt.sleeping and not lt.is_cancelled:
            lt.sleeping = False
            loop.ready.append(("wake", lt))
            continue
        break
    check(len(loop.unhandled) == 0, "no exception is left unhandled in the event loop (no internal consistency check trips)")
    check(len([c for c in ghost("sent") if c is b]) == 1, "the second caller's command is transmitted exactly once")
    check(And(tb.done, tb.ok), "a command sent to a responsive device succeeds, whenever its caller arrived")
    if tb.done and tb.ok:
        check(tb.value is pk["reply_b"], "a caller that awaits a reply gets the reply to ITS command, never another command's packet")
    check(ta.done, "every caller has been answered")
    if ta.done and ta.ok:
        check(ta.value is pk["reply_a"], "the first caller gets the reply to ITS command")
    elif ta.done:
        check(isinstance(ta.exc, exc.ProtocolError), "a send that does not return a packet raises a protocol error")
    check(And(isinstance(ctx._state, fsm.IsInIdle), ctx._cmd is None, ctx._fut is None or ctx._fut.done(), ctx._expiry_timer is None,
              len(ctx._que.items) == 0), "once traffic stops the sender is idle with nothing in flight and nothing queued")


@harness("C08", cases=[(r,) for r in (1, 2, 3)], budget_s=900, stubs=STUBS)
def waits_double_per_unanswered_attempt(retries):
    """One command that awaits a reply, `retries` retries allowed, from a relaxed sender; every timer gets its first
    step at once (as on a real loop, where the task starts in the next iteration, long before a packet can arrive).
    Each attempt ends in one of three ways, chosen freely: the echo is lost; the echo arrives and the reply is lost;
    both arrive.  Then: the wait for the echo AND the wait for the reply of the k-th attempt are the base timeout
    doubled once per unanswered attempt before it (capped at 8x)."""
    loop = Loop()
    ghost("loop").append(loop)
    ctx = make_context(loop)
    ghost("ctx").append(ctx)
    cmd = FakeCmd("cmd")
    cmd.src = FakeAddr("18:000730")
    echo = FakePkt(cmd.tx_header, src="18:123456", dst="01:145038")
    reply = FakePkt(cmd.rx_header)
    caller = spawn(ctx.send_cmd(radio_write, cmd, 2, FakeQos(retries, 30.0, True)), start=False)
    ghost("current_caller").append(caller)
    start(caller)

    def drain():
        n = 0
        while loop.ready and n < 40:
            run_one(loop, ctx)
            n += 1

    def timer_fires():
        lt = ctx._expiry_timer
        assume(lt is not None and lt.sleeping and not lt.is_cancelled)
        lt.sleeping = False
        loop.ready.append(("wake", lt))
        drain()

    drain()
    for a in range(retries + 1):
        if caller.done:
            break
        how = sym_choice(f"attempt_{a + 1}", ["echo_lost", "reply_lost", "answered"])
        if how == "echo_lost":
            timer_fires()
            continue
        loop.ready.append(("pkt", echo))
        drain()
        if how == "reply_lost":
            timer_fires()
        else:
            loop.ready.append(("pkt", reply))
            drain()
    for d, k, for_echo in ghost("waits_of_attempts"):
        if for_echo:
            check(d == 0.5 * (2 ** min(k - 1, 3)), "the wait for the echo of the k-th attempt is the base timeout doubled once per unanswered attempt before it (up to 8x)")
        else:
            check(d == 0.5 * (2 ** min(k - 1, 3)), "the wait for the reply of the k-th attempt is the base timeout doubled once per unanswered attempt before it (up to 8x)")
    check(len(ghost("sent")) <= 1 + retries, "never transmitted more often than the retry budget allows")


def kf_an_echo_arrived_before(inp):
    """Known-finding class: an echo arrived in some attempt (not every attempt lost its echo).  The back-off
    multiplier is decremented 'assuming success' whenever a timer starts -- also when the reply timer starts
    after the echo -- so from then on the waits are shorter than 'doubled per unanswered attempt'."""
    r = False
    for k, v in inp.items():
        if k.startswith("attempt_"):
            r = Or(r, v != "echo_lost")
    return r


@structural("C07")
def send_cmd_waits_once_and_bounded():
    """ProtocolContext.send_cmd suspends at exactly one place, `await asyncio.wait_for(fut, timeout=timeout)`
    with timeout = min(qos.timeout, self.SEND_TIMEOUT_LIMIT) and SEND_TIMEOUT_LIMIT <= 20 s: together
    with asyncio.wait_for's contract (assumed) every call ends within the caller's timeout, capped."""
    import ast
    import inspect
    import textwrap
    fn = ast.parse(textwrap.dedent(inspect.getsource(fsm.ProtocolContext.send_cmd))).body[0]
    awaits = [n for n in ast.walk(fn) if isinstance(n, (ast.Await, ast.AsyncFor, ast.AsyncWith))]
    texts = [ast.unparse(a) for a in awaits]
    assigns = [ast.unparse(n.value) for n in ast.walk(fn) if isinstance(n, ast.Assign) and ast.unparse(n.targets[0]) == "timeout"]
    return [
        ("send_cmd suspends at exactly one place: await asyncio.wait_for(fut, timeout=timeout)",
         texts == ["await asyncio.wait_for(fut, timeout=timeout)"], str(texts)),
        ("that timeout is min(qos.timeout, self.SEND_TIMEOUT_LIMIT)",
         assigns == ["min(qos.timeout, self.SEND_TIMEOUT_LIMIT)"], str(assigns)),
        ("the cap SEND_TIMEOUT_LIMIT is at most 20 s", 0 < fsm.ProtocolContext.SEND_TIMEOUT_LIMIT <= 20, str(fsm.ProtocolContext.SEND_TIMEOUT_LIMIT)),
    ]
