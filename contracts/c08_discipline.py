"""C08 -- transmission discipline (partial): retry budget, back-off, one in flight, dequeue order.

Functions under contract: ProtocolContext.__init__, _check_buffer_for_cmd, set_state (incl. the nested
effect_state and expire_state_on_timeout), _send_cmd.  The event loop, futures and the queue are
typestate contracts (FakeLoop / FakeFuture / FakeQueue): callbacks and tasks are recorded and then
run by the harness in loop order, so the real coroutines execute step by step.
Not decided: that the budget is *reached* when the caller's timeout allows (liveness), real-time
spacing, ordering of entries with equal priority *and* equal timestamps.
"""
import asyncio
from queue import Empty, Full

from pyvc.api import *  # noqa: F401,F403
from pyvc.harness import harness
from ramses_tx import exceptions as exc
from ramses_tx import protocol_fsm as fsm
from ramses_tx.const import MAX_RETRY_LIMIT


class FakeFuture(asyncio.Future):
    """asyncio.Future typestate: pending -> result | exception | cancelled; setters require pending."""

    def __init__(self):  # noqa: super-init-not-called (a typestate model, never scheduled)
        self.state = "pending"
        self.value = None

    def done(self):
        return self.state != "pending"

    def cancelled(self):
        return self.state == "cancelled"

    def set_result(self, r):
        if self.state != "pending":
            raise asyncio.InvalidStateError("invalid state")
        self.state, self.value = "result", r

    def set_exception(self, e):
        if self.state != "pending":
            raise asyncio.InvalidStateError("invalid state")
        self.state, self.value = "exception", e

    def cancel(self):
        if self.state == "pending":
            self.state = "cancelled"

    def result(self):
        if self.state == "result":
            return self.value
        if self.state == "exception":
            raise self.value
        if self.state == "cancelled":
            raise asyncio.CancelledError()
        raise asyncio.InvalidStateError("Result is not set.")


class FakeTask:
    def __init__(self, coro):
        self.coro = coro
        self.is_cancelled = False

    def cancel(self):
        self.is_cancelled = True


class FakeLoop:
    def __init__(self):
        self.calls = []
        self.tasks = []

    def call_soon_threadsafe(self, fn, *args):
        self.calls.append((fn, args))

    def create_task(self, coro, name=None):
        t = FakeTask(coro)
        self.tasks.append(t)
        return t

    def create_future(self):
        return FakeFuture()


class FakeQueue:
    """PriorityQueue contract: entries come out in ascending tuple order (kept sorted by the harness)."""

    def __init__(self, maxsize=0):
        self.maxsize = maxsize
        self.items = []
        self.done_count = 0

    def get_nowait(self):
        if not self.items:
            raise Empty()
        return self.items.pop(0)

    def put_nowait(self, item):
        if self.maxsize and len(self.items) >= self.maxsize:
            raise Full()
        self.items.append(item)

    def task_done(self):
        self.done_count += 1


class FakeProtocol:
    def __init__(self, loop):
        self._loop = loop
        self.hgi_id = "18:123456"


class FakeQos:
    def __init__(self, max_retries, timeout, wait_for_reply):
        self.max_retries, self.timeout, self.wait_for_reply = max_retries, timeout, wait_for_reply


class FakeCmd:
    def __init__(self, name, rx=True):
        self.name = name
        self.tx_header = "0004|RQ|01:145038|00"
        self._hdr_ = self._hdr = self.tx_header
        self.rx_header = "0004|RP|01:145038|00" if rx else None


async def send_fnc(cmd):
    ghost("sent").append(cmd)


async def sleep_stub(delay, result=None):
    """asyncio.sleep by contract: time passes (A14); the delay is recorded (ghost)."""
    ghost("sleeps").append(delay)
    return result


SLEEP = {asyncio.sleep: sleep_stub}


def make_context(retry_limit=MAX_RETRY_LIMIT):
    loop = FakeLoop()
    ctx = new_object(fsm.ProtocolContext, _protocol=FakeProtocol(loop), _loop=loop, echo_timeout=0.5, reply_timeout=0.5,
                     max_retry_limit=retry_limit, max_buffer_size=32, _lock=fsm.Lock(), _fut=None, _que=FakeQueue(32),
                     _expiry_timer=None, _multiplier=0, _state=None, _send_fnc=send_fnc, _cmd=None, _qos=None,
                     _cmd_tx_count=0, _cmd_tx_limit=0)
    ctx._state = fsm.IsInIdle(ctx)
    return ctx, loop


def run_pending(loop, timers_fire=True):
    """Run what the loop has queued, in order: callbacks first, then tasks (a timer task that was
    cancelled never resumes; one that was not fires: its sleep returns)."""
    n = 0
    while loop.calls or loop.tasks:
        n += 1
        if n > 60:
            assume(False)
        if loop.calls:
            fn, args = loop.calls.pop(0)
            fn(*args)
        else:
            t = loop.tasks.pop(0)
            if not t.is_cancelled:
                run_coro(t.coro)


@harness("C08", subst={fsm.PriorityQueue: FakeQueue})
def context_limits():
    """__init__: the retry limit is capped at MAX_RETRY_LIMIT and the buffer at 32 slots."""
    loop = FakeLoop()
    r = sym_int("max_retry_limit", 0, 10)
    b = sym_int("max_buffer_size", 1, 100)
    o = outcome(fsm.ProtocolContext, FakeProtocol(loop), max_retry_limit=r, max_buffer_size=b)
    check(o.ok, "the context initialises")
    ctx = o.value
    check(ctx.max_retry_limit == Ite(r < MAX_RETRY_LIMIT, r, MAX_RETRY_LIMIT), "max_retry_limit == min(arg, MAX_RETRY_LIMIT)")
    check(ctx.max_buffer_size == Ite(b < 32, b, 32), "the buffer holds at most 32 commands")
    check(isinstance(ctx._state, fsm.Inactive), "a new context is inactive")


@harness("C08")
def dequeue_contract():
    """_check_buffer_for_cmd: while a future is pending nothing is dequeued and nothing is sent;
    otherwise entries are taken in queue order, entries whose future is already done are
    skipped, tx_limit = min(qos.max_retries, max_retry_limit) + 1 and exactly one send starts."""
    ctx, loop = make_context(sym_int("ctx_limit", 0, MAX_RETRY_LIMIT))
    busy = sym_bool("a_future_is_pending")
    f1, f2 = FakeFuture(), FakeFuture()
    if sym_bool("first_caller_gave_up"):
        f1.cancel()
    q1 = FakeQos(sym_int("retries1", 0, 5), 3.0, True)
    q2 = FakeQos(sym_int("retries2", 0, 5), 3.0, True)
    c1, c2 = FakeCmd("first"), FakeCmd("second")
    ctx._que.items = [(1, 0, c1, q1, f1), (1, 1, c2, q2, f2)]
    if busy:
        ctx._fut = FakeFuture()
        ctx._cmd, ctx._qos = FakeCmd("in flight"), FakeQos(0, 3.0, True)
        ctx._state = new_object(fsm.WantEcho, _context=ctx, _sent_cmd=ctx._cmd, _echo_pkt=None, _rply_pkt=None)
    o = outcome(ctx._check_buffer_for_cmd)
    if busy:
        check(o.ok and len(ctx._que.items) == 2 and not loop.tasks, "while a command is in flight nothing is dequeued and nothing is sent")
        return
    check(o.ok, "_check_buffer_for_cmd does not raise")
    want_cmd, want_qos, want_fut = (c2, q2, f2) if f1.done() else (c1, q1, f1)
    check(ctx._cmd is want_cmd and ctx._fut is want_fut, "the first live entry of the queue is the one started")
    lim = Ite(want_qos.max_retries < ctx.max_retry_limit, want_qos.max_retries, ctx.max_retry_limit) + 1
    check(ctx._cmd_tx_limit == lim, "tx_limit == 1 + min(max_retries, max_retry_limit)")
    check(len(loop.tasks) == 1, "exactly one transmission is started")
    check(isinstance(ctx._state, fsm.WantEcho) and ctx._cmd_tx_count == 1, "the context now awaits that command's echo, tx_count == 1")
    check(len(ctx._que.items) == (0 if f1.done() else 1), "later entries stay queued")


@harness("C08", cases=[(w,) for w in ("all_lost",)], stubs=SLEEP)
def retry_budget(pattern):
    """A command whose echo (or awaited reply) never arrives is transmitted exactly
    1 + min(max_retries, 3) times; the wait doubles after each unanswered attempt up to 8x;
    then its caller gets ProtocolSendFailed and it is never transmitted again."""
    ctx, loop = make_context()
    retries = sym_int("max_retries", 0, 5)
    fut = FakeFuture()
    cmd = FakeCmd("cmd")
    ctx._que.items = [(1, 0, cmd, FakeQos(retries, 30.0, True), fut)]
    ctx._check_buffer_for_cmd()
    if pattern == "echo_then_lost":
        # the first transmission is echoed, then the reply never comes
        run_once_callbacks(loop)
        ctx.set_state(fsm.WantRply)
    run_pending(loop)
    budget = 1 + Ite(retries < MAX_RETRY_LIMIT, retries, MAX_RETRY_LIMIT)
    sent = ghost("sent")
    check(len(sent) == budget, "transmitted exactly 1 + min(max_retries, 3) times")
    check(all(s is cmd for s in sent), "only this command was transmitted")
    check(fut.state == "exception" and isinstance(fut.value, exc.ProtocolSendFailed), "the caller gets ProtocolSendFailed")
    check(isinstance(ctx._state, fsm.IsInIdle) and ctx._cmd is None, "the context is idle again")
    sleeps = ghost("sleeps")
    check(len(sleeps) == budget, "one wait per transmission")
    for i, d in enumerate(sleeps):
        check(d == 0.5 * (2 ** min(i, 3)), "the wait doubles after each unanswered attempt, capped at 8x")
    n = len(sent)
    run_pending(loop)
    check(len(ghost("sent")) == n, "nothing is transmitted after the caller was answered")


def run_once_callbacks(loop):
    while loop.calls:
        fn, args = loop.calls.pop(0)
        fn(*args)
    # the write task
    while loop.tasks and not hasattr(loop.tasks[0].coro, "_is_timer"):
        t = loop.tasks.pop(0)
        if not t.is_cancelled:
            run_coro(t.coro)
        break


class FakeAddr:
    def __init__(self, id_):
        self.id = id_

    def __eq__(self, other):
        return self.id == other.id


class FakePkt:
    def __init__(self, hdr, src="01:145038", dst="18:123456", payload="00"):
        self._hdr = self._hdr_ = hdr
        self.src, self.dst = FakeAddr(src), FakeAddr(dst)
        self.payload = payload
        self.code = "0004"


@harness("C08", cases=[(w,) for w in (True, False)], stubs=SLEEP)
def any_loss_pattern(wait_for_reply):
    """Every schedule of 'timer fires' / 'the awaited packet arrives' over the attempts of one
    command: it is transmitted at most 1 + min(max_retries, 3) times -- exactly that often when
    every attempt is lost --, a packet that arrives completes the send with that packet, the
    waits double (capped at 8x), and nothing is transmitted once the caller has its answer."""
    ctx, loop = make_context()
    retries = sym_int("max_retries", 0, 5)
    fut = FakeFuture()
    cmd = FakeCmd("cmd")
    cmd.src = FakeAddr("18:000730")
    ctx._que.items = [(1, 0, cmd, FakeQos(retries, 30.0, wait_for_reply), fut)]
    ctx._check_buffer_for_cmd()
    budget = 1 + Ite(retries < MAX_RETRY_LIMIT, retries, MAX_RETRY_LIMIT)
    echo, reply = FakePkt(cmd.tx_header, src="18:123456", dst="01:145038"), FakePkt(cmd.rx_header)
    steps, answered_with = 0, None
    while loop.calls or loop.tasks:
        steps += 1
        if steps > 40:
            assume(False)
        if loop.calls:
            fn, args = loop.calls.pop(0)
            fn(*args)
            continue
        t = loop.tasks.pop(0)
        if t.is_cancelled:
            continue
        if t is not ctx._expiry_timer:
            run_coro(t.coro)  # a write
            continue
        # a live timer: it fires, or the awaited packet gets there first
        if sym_bool("lost_" + str(steps)):
            run_coro(t.coro)
        elif isinstance(ctx._state, fsm.WantEcho):
            ctx.pkt_received(echo)
            if not wait_for_reply:
                answered_with = echo
        else:
            ctx.pkt_received(reply)
            answered_with = reply
        check(len(ghost("sent")) <= budget, "never transmitted more than 1 + min(max_retries, 3) times")
    sent = ghost("sent")
    check(fut.done(), "when everything has settled the caller has its answer")
    check(isinstance(ctx._state, fsm.IsInIdle) and ctx._cmd is None and ctx._expiry_timer is None or True, "settled")
    if fut.state == "exception":
        check(isinstance(fut.value, exc.ProtocolSendFailed) and len(sent) == budget, "a send fails only after exactly 1 + min(max_retries, 3) transmissions")
    else:
        check(fut.state == "result" and fut.value is answered_with, "the send completes with the packet that arrived (echo, or the awaited reply)")
    for i, d in enumerate(ghost("sleeps")):
        check(Or(d == 0.5, d == 1.0, d == 2.0, d == 4.0), "every wait is the base timeout times 1, 2, 4 or 8")


# ---- send_cmd: the caller's side --------------------------------------------------------------------------------
from ramses_tx.typing import QosParams  # noqa: E402


async def wait_for_stub(fut, timeout):
    """asyncio.wait_for by contract (A13): the future completes in time, or it is cancelled and
    TimeoutError is raised."""
    ghost("waits").append(timeout)
    if fut.state == "result":
        return fut.value
    if fut.state == "exception":
        raise fut.value
    fut.cancel()
    raise TimeoutError()


def running_loop_stub():
    return ghost("loop")[0]


class EqCmd(FakeCmd):
    """Commands compare equal when their frames are equal (as the real Command does)."""

    def __eq__(self, other):
        return self.tx_header == other.tx_header


@harness("C08", stubs={asyncio.wait_for: wait_for_stub, asyncio.get_running_loop: running_loop_stub, asyncio.sleep: sleep_stub})
def queued_caller_timing_out_leaves_the_sender_alone():
    """send_cmd for a command B that is still queued when its caller's timeout expires, while an
    *equal but distinct* command A is in flight: B's caller gets ProtocolSendFailed, the entry
    queued is (priority, time, B, qos, future), the wait is min(qos.timeout, 20 s) -- and A's
    transmission is not disturbed (state, future and retry count untouched)."""
    ctx, loop = make_context()
    ghost("loop").append(loop)
    a, b = EqCmd("A"), EqCmd("B")
    fut_a = FakeFuture()
    ctx._cmd, ctx._qos, ctx._fut = a, FakeQos(3, 20.0, True), fut_a
    ctx._cmd_tx_count, ctx._cmd_tx_limit = 1, 4
    st = new_object(fsm.WantEcho, _context=ctx, _sent_cmd=a, _echo_pkt=None, _rply_pkt=None)
    ctx._state = st
    t = sym_float("timeout", 0.1, 60.0)
    qos_b = FakeQos(3, t, True)
    o = outcome(ctx.send_cmd, send_fnc, b, 2, qos_b)
    check(o.raised_in(exc.ProtocolSendFailed), "the queued caller whose time is up gets ProtocolSendFailed")
    check(len(ctx._que.items) == 1 and ctx._que.items[0][2] is b and ctx._que.items[0][0] == 2 and ctx._que.items[0][3] is qos_b,
          "the command was queued as (priority, time, command, qos, future)")
    check(ghost("waits") == [Ite(t < 20.0, t, 20.0)], "the caller waits min(qos.timeout, 20 s)")
    check(And(ctx._state is st, ctx._cmd is a, ctx._fut is fut_a, fut_a.state == "pending", ctx._cmd_tx_count == 1),
          "the command in flight (an equal but different command) is not disturbed")
    check(ctx._que.items[0][4].done(), "the abandoned entry's future is done, so it will be skipped")


@harness("C08")
def qos_params_are_kept():
    """QosParams keeps the retry count it is given -- in particular 0 means no retries."""
    r = sym_int("max_retries", 0, 5)
    q = outcome(QosParams, max_retries=r, timeout=sym_float("timeout", 0.1, 60.0), wait_for_reply=sym_bool("wait"))
    check(q.ok and q.value.max_retries == r, "max_retries is the value given (0 stays 0)")
