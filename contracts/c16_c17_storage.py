"""C16 (saved state: storage format and snapshot filter) and C17 (schedules survive the wire format).

C16 functions under contract: Packet.__repr__ / Packet.from_dict (the textual storage format),
Gateway.get_state.<locals>.wanted_msg (through get_state).  Not decided: the gateway-level fixpoint.
C17 functions under contract: schedule._struct_pack / _struct_unpack, the time-of-day text codec inside
fragz_to_full_sched, the 82-character fragmenting of full_sched_to_fragz, Command.set_schedule_fragment
and parser_0404.  zlib's round trip is assumed (A12).  Not decided: whole-week loops beyond the
unrolled sizes, that a mixed fragment set is always rejected.
"""
import re
from datetime import datetime as dt, timedelta as td

from pyvc.api import *  # noqa: F401,F403
from pyvc.harness import harness
from ramses_rf import gateway as G
from ramses_rf.system import schedule as S
from ramses_tx import packet as _packet
from ramses_tx.command import Command
from ramses_tx.message import Message
from ramses_tx.packet import Packet
from ramses_tx.ramses import CODES_SCHEMA

from .c02_frames import VERBS, pkt_lifespan_callsite, sym_addr_set, sym_seqn

DTM = "2023-11-30T13:15:00.123456"


# =========================================================================== C16
@harness("C16", cases=[(shape, n, 123456) for shape in (1, 2, 3) for n in (1, 3, 24)] + [(shape, 1, us) for shape in (1, 2, 3) for us in (0, 500000)],
         quick=lambda shape, n, us: n == 3 or (shape == 1 and us == 0), budget_s=400,
         subst={_packet.pkt_lifespan: pkt_lifespan_callsite})
def stored_packet_restores(shape, n, us):
    """The storage form of a packet -- repr(pkt)[:26] (timestamp) and repr(pkt)[27:] (frame, with its
    header comment) -- restores through Packet.from_dict to an equal packet with the same
    timestamp (so a snapshot can be fed back); also for a timestamp on a whole second (us == 0)."""
    DTM = dt(2023, 11, 30, 13, 15, 0, us).isoformat(timespec="microseconds")
    verb = sym_choice("verb", list(VERBS))
    _, seqn = sym_seqn()
    a0, a1, a2 = sym_addr_set(shape)
    code = sym_choice("code", ["30C9", "7FFF"])
    payload = sym_str("payload", 2 * n, "HEX")
    frame = f"{verb} {seqn} {a0} {a1} {a2} {code} {n:03d} {payload}"
    o = outcome(Packet.from_port, dt.fromisoformat(DTM), "045 " + frame)
    assume(o.ok)
    p = o.value
    text = repr(p)
    check(text[:26] == DTM, "the first 26 characters of the storage form are the timestamp")
    r = outcome(Packet.from_dict, text[:26], text[27:])
    check(r.ok, "the storage form of a packet is accepted again")
    if r.ok:
        check(And(r.value == p, str(r.value) == frame), "the restored packet equals the stored one")
        check(r.value.dtm == p.dtm, "with the same timestamp")


class FakeStoredMsg:
    def __init__(self, code, verb, length, expired):
        self.code, self.verb = code, verb
        self._expired = expired
        self._pkt = FakeStoredPkt(length)
        self._ghost_id = None


class FakeStoredPkt:
    def __init__(self, length):
        self._len = length

    def __repr__(self):
        return "2023-11-30T13:15:00.123456 ... RQ --- 18:000730 01:145038 --:------ 0004 002 0000"


class FakeDev:
    def __init__(self, msgs):
        self._msg_db = msgs


def pause_stub(self, *args):
    pass


def resume_stub(self):
    return ()


def schema_stub(self):
    return {}


@harness("C16", stubs={G.Gateway._pause: pause_stub, G.Gateway._resume: resume_stub, G.Gateway.schema.fget: schema_stub})
def snapshot_filter():
    """get_state keeps a message only if it is not a request, not a write other than a schedule
    fragment (W|0404 longer than 7 bytes), and -- unless asked for -- not expired."""
    code = sym_choice("code", ["30C9", "0404", "313F", "1FC9"])
    verb = sym_choice("verb", [" I", "RP", "RQ", " W"])
    n = sym_int("len", 1, 48)
    expired = sym_bool("expired")
    include = sym_bool("include_expired")
    msg = FakeStoredMsg(code, verb, n, expired)
    gwy = new_object(G.Gateway, devices=[FakeDev([msg])], _zzz=None)
    o = outcome(gwy.get_state, include)
    check(o.ok, "get_state does not raise")
    kept = len(o.value[1]) == 1
    check(Implies(kept, verb != "RQ"), "a snapshot never contains a request")
    check(Implies(And(kept, verb == " W"), And(code == "0404", n > 7)), "nor a write other than a schedule fragment")
    check(Implies(And(kept, Not(include)), Not(expired)), "nor (unless asked for) an expired packet")
    check(Implies(And(verb in (" I", "RP"), Not(expired), code != "0404"), kept), "a live I/RP is kept")


def _slots(ent):
    return ([(c, v, x) for c, vs in ent._msgz_.items() for v, xs in vs.items() for x in xs], list(ent._msgs_))


@harness("C16")
def storing_the_same_packet_again_changes_nothing():
    """_MessageDB._handle_msg fed a packet the entity already holds (the same snapshot restored twice,
    or restored into the gateway it came from): no slot is added or removed, the flattened message
    list that get_state walks has the same length, and each slot holds the packet just stored."""
    from ramses_rf import entity_base as EB

    from .c02_frames import sym_dev
    from .c14_freshness import CTXS, fake_msg
    me, src, dst = sym_dev("me"), sym_dev("src"), sym_dev("dst")
    code = sym_choice("code", ["30C9", "2309"])
    verb = sym_choice("verb", [" I", "RP", "RQ", " W"])
    ctx = sym_choice("ctx", CTXS)
    ent = new_object(EB._MessageDB, id=me, _msgs_={}, _msgz_={}, _gwy=FakeZzzGwy())
    first, again = fake_msg("first", src, dst, code, verb, ctx), fake_msg("again", src, dst, code, verb, ctx)
    o1 = outcome(ent._handle_msg, first)
    before, n_before = _slots(ent), len(ent._msg_db)
    o2 = outcome(ent._handle_msg, again)
    check(o1.ok and o2.ok, "_handle_msg does not raise")
    check(_slots(ent) == before, "storing a packet the entity already holds adds and removes no slot")
    check(len(ent._msg_db) == n_before, "the message list get_state walks keeps its length")
    if n_before:
        check(ent._msgz_[code][verb][ctx] is again, "the slot holds the packet stored last")


class FakeZzzGwy:
    _zzz = None


# =========================================================================== C17
@harness("C17", cases=[("zone",), ("dhw",)])
def switchpoint_roundtrip(kind):
    """_struct_unpack(_struct_pack(...)) gives back the zone index, day, time of day and value, for
    every zone 00-0F, day 0-6, the 288 five-minute times, setpoints 5.00-35.00 on the 0.01
    grid (or on/off states); and the time-of-day text and setpoint decode back exactly."""
    z = sym_int("zone", 0, 15)
    dow = sym_int("dow", 0, 6)
    slot = sym_int("slot", 0, 287)
    h, m = slot // 12, (slot % 12) * 5
    tod_txt = f"{h:02d}:{m:02d}"
    full = {"zone_idx": f"{z:02X}"}
    day = {"day_of_week": dow}
    if kind == "zone":
        k = sym_int("centi", 500, 3500)
        sp = {"time_of_day": tod_txt, "heat_setpoint": k / 100}
    else:
        en = sym_bool("enabled")
        sp = {"time_of_day": tod_txt, "enabled": en}
    b = outcome(S._struct_pack, full, day, sp)
    check(b.ok and len(b.value) == 20, "a switchpoint packs into 20 bytes")
    u = outcome(S._struct_unpack, b.value)
    check(u.ok, "the 20 bytes unpack")
    idx, d2, tod, val = u.value
    check(And(idx == z, d2 == dow, tod == slot * 5), "zone index, day and minute-of-day come back")
    if kind == "zone":
        lemma(val == k, "the setpoint comes back in hundredths of a degree")
        check(val / 100 == k / 100, "and decodes to the setpoint that was packed")
    else:
        check(val == Ite(en, 1, 0), "the on/off state comes back")
    check("{:02d}:{:02d}".format(*divmod(tod, 60)) == tod_txt, "the time of day prints as it was given")


def decompress_stub(data, *args, **kwargs):
    """zlib.decompress by contract (A12): gives back what was compressed (ghost: the packed bytes)."""
    return ghost("raw_schedule")[0]


@harness("C17", cases=[(days, per_day) for days in (1, 2, 3) for per_day in (1, 2, 3)], quick=lambda days, per_day: days <= 2 and per_day <= 2, stubs={S.zlib.decompress: decompress_stub})
def decoded_schedule_is_the_one_packed(days, per_day):
    """The real decode loop of fragz_to_full_sched (20-byte records -> day grouping -> time-of-day text
    -> setpoint) on the bytes _struct_pack produced for a schedule of `days` days x `per_day`
    switchpoints gives back exactly that schedule (zlib by contract).  Bounded in the number of
    days / switchpoints unrolled (stated); setpoints, times and the zone are symbolic."""
    z = sym_int("zone", 0, 15)
    full = {"zone_idx": f"{z:02X}", "schedule": []}
    raw = []
    for d in range(days):
        sps, cents = [], []
        for i in range(per_day):
            slot = sym_int(f"slot_{d}_{i}", 0, 287)
            k = sym_int(f"centi_{d}_{i}", 500, 3500)
            cents.append((slot, k))
            h, m = slot // 12, (slot % 12) * 5
            sps.append({"time_of_day": f"{h:02d}:{m:02d}", "heat_setpoint": k / 100})
        day = {"day_of_week": d, "switchpoints": sps}
        full["schedule"].append(day)
        for sp, (slot, k) in zip(sps, cents):
            rec = S._struct_pack(full, day, sp)
            # the single-record contract (switchpoint_roundtrip), used here as a lemma
            u = S._struct_unpack(rec)
            lemma(And(u[2] == slot * 5, u[3] == k), "each packed record unpacks to its minute of day and its setpoint in hundredths")
            raw.extend(rec)
    ghost("raw_schedule").append(bytearray(raw))
    o = outcome(S.fragz_to_full_sched, ["00"])
    check(o.ok, "the packed schedule decodes")
    check(o.value == full, "fragz_to_full_sched gives back the schedule that was packed (zone, days, times, setpoints)")


@harness("C17", cases=[(n,) for n in (1, 20, 41)])
def fragment_command_decodes_back(n):
    """Command.set_schedule_fragment for any zone, fragment number/count and fragment of up to 41
    bytes: a W|0404 frame of at most 48 payload bytes that the schema accepts and that
    parser_0404 decodes to the same (frag_number, total_frags, fragment)."""
    zk = sym_choice("zone_kind", ["zone", "HW", "FA", "0xFA"])
    z = sym_int("zone", 0, 15) if zk == "zone" else {"HW": "HW", "FA": "FA", "0xFA": 0xFA}[zk]
    cnt = sym_int("cnt", 1, 9)
    num = sym_int("num", 1, cnt)
    frag = sym_str("frag", 2 * n, "HEX")
    c = outcome(Command.set_schedule_fragment, "01:145038", z, num, cnt, frag)
    check(c.ok, "a fragment command is built")
    cmd = c.value
    check(And(cmd.verb == " W", cmd.code == "0404", cmd._len <= 48), "it is a W|0404 that fits a single frame")
    check(re.compile(CODES_SCHEMA["0404"][" W"]).match(cmd.payload) is not None, "its payload matches the W|0404 schema")
    m = outcome(lambda: Message(Packet.from_port(dt(2023, 11, 30), "000 " + str(cmd))))
    check(m.ok, "the decoder accepts it")
    if m.ok:
        pl = m.value.payload
        check(And(pl["frag_number"] == num, pl["total_frags"] == cnt, pl["fragment"] == frag, pl["frag_length"] == n), "and decodes the same fragment number, count and fragment")


def valid_payload(num, total):
    return {"frag_number": num, "total_frags": total, "fragment": "AA"}


def proc_payload_set_stub(self, payload_set):
    """Contract of _proc_payload_set on a complete set: a schedule, or None (zlib rejects the blob)."""
    if sym_bool("blob_decompresses"):
        return {"zone_idx": "01"}
    ghost("rejected").append(1)  # the set is then restarted from the fragment just received
    return None


def _shape(ps):
    return [None if x is None else x["frag_number"] for x in ps]


@harness("C17", cases=[(t,) for t in (1, 2, 3, 5)], stubs={S.Schedule._proc_payload_set: proc_payload_set_stub})
def payload_set_invariant(total):
    """Schedule._update_payload_set: slot i holds fragment i + 1 of a set of the announced size or
    is empty; a repeated fragment changes nothing; the order of arrival does not matter."""
    a = sym_choice("a", list(range(1, total + 1)))
    b = sym_choice("b", list(range(1, total + 1)))
    pa, pb = valid_payload(a, total), valid_payload(b, total)
    me = new_object(S.Schedule, idx="01", _full_schedule={})
    s1 = outcome(me._update_payload_set, [None], pa)
    check(s1.ok, "_update_payload_set does not raise")
    s2 = me._update_payload_set(s1.value, pb)
    t2 = me._update_payload_set(me._update_payload_set([None], pb), pa)
    if len(s2) == total and len(t2) == total:
        for i, slot in enumerate(s2):
            if slot is not None:
                check(slot["frag_number"] == i + 1, "slot i holds fragment i + 1 (or nothing)")
        if not ghost("rejected"):  # (a complete set whose blob does not decompress is restarted)
            check(_shape(s2) == _shape(t2), "the order in which fragments arrive does not matter")
            check(_shape(me._update_payload_set(list(s2), pa)) == _shape(s2), "a repeated fragment changes nothing")
    check(len(s2) == total, "the set has one slot per announced fragment")
    if ghost("rejected") and total > 1:
        check(None in s2, "a complete set whose blob is rejected is restarted from the last fragment (the transfer can go on)")


def kf_313f(inp):
    """Known-finding class: 313F (date-time) messages are kept although expired, on purpose
    ('usu. expired, useful 4 back-back restarts')."""
    return inp["code"] == "313F"


from pyvc.harness import native  # noqa: E402


@native("C17")
def fragments_fit_frames(seed, n):
    """Bounded: real full_sched_to_fragz on a deterministic family of valid schedules (searched until
    compressed blobs whose length is an exact multiple of 41 bytes are among them): every
    fragment is 1..41 bytes, the fragments join to the blob that decodes back to the
    schedule, and every W|0404 built from them is accepted by the library's own decoder."""
    import logging
    import random
    logging.disable(logging.CRITICAL)
    rng = random.Random(seed)
    fails, evals, boundary = [], 0, 0
    try:
        for i in range(max(200, n)):
            sched = [{"day_of_week": d, "switchpoints": [
                {"time_of_day": f"{(6 + 2 * j + (i + d) % 3) % 24:02d}:{(5 * ((i + j) % 12)):02d}", "heat_setpoint": (500 + (37 * i + 11 * j + 3 * d) % 3001) / 100}
                for j in range(1 + (i + d) % 4)]} for d in range(7)]
            for d in sched:
                d["switchpoints"].sort(key=lambda x: x["time_of_day"])
            full = {"zone_idx": f"{i % 12:02X}", "schedule": sched}
            frags = S.full_sched_to_fragz(full)
            evals += 1
            blob = "".join(frags)
            if len(blob) % 82 == 0:
                boundary += 1
            ok = all(2 <= len(f) <= 82 and len(f) % 2 == 0 for f in frags) and S.fragz_to_full_sched(frags) == full
            why = "fragment sizes / decode"
            if ok:
                for num, f in enumerate(frags, 1):
                    try:
                        cmd = Command.set_schedule_fragment("01:145038", full["zone_idx"], num, len(frags), f)
                        m = Message(Packet.from_port(dt(2023, 11, 30), "000 " + str(cmd)))
                        ok = ok and m.payload["fragment"] == f and m.payload["total_frags"] == len(frags)
                    except Exception as e:  # noqa: BLE001
                        ok, why = False, f"{type(e).__name__}: {e}"
            if not ok:
                fails.append({"label": "every fragment fits a frame the decoder accepts and the fragments decode back to the schedule",
                              "witness": {"seed": seed, "schedule_index": i, "fragment_lengths": [len(f) // 2 for f in frags], "why": why}})
                if len(fails) > 3:
                    break
    finally:
        logging.disable(logging.NOTSET)
    return {"evaluations": evals, "failures": fails, "boundary_blobs": boundary}
