"""C05 (and the message-level clause of C01) -- decoded payloads.

One obligation generator per (code, verb, payload length) of CODES_SCHEMA: the payload is
symbolic within the code's own regex, under the legal address shapes; Message(Packet(frame)) is
executed from the current ASTs (message.py, parsers.py, helpers.py, frame.py ...).
"""
import re
from datetime import datetime as dt

from pyvc import regexc
from pyvc.api import *  # noqa: F401,F403
from pyvc.harness import harness, native
from ramses_tx import exceptions as exc
from ramses_tx import helpers as H
from ramses_tx import packet as _packet
from ramses_tx.command import CODE_API_MAP
from ramses_tx.message import Message
from ramses_tx.packet import Packet
from ramses_tx.ramses import CODES_SCHEMA, CODES_WITH_ARRAYS

from .c01_reception import pkt_lifespan_may_raise
from .c02_frames import sym_dev

NON = "--:------"
HEXA = "0123456789ABCDEF"
VERBS = (" I", "RP", "RQ", " W")
NOW = dt(2023, 11, 30, 13, 15)


def lengths(code, verb):
    rx = CODES_SCHEMA.get(code, {}).get(verb)
    if not isinstance(rx, str):
        return []
    ls = regexc.accepted_lengths(rx, re.compile(rx).flags, HEXA, 96)
    return sorted(n // 2 for n in ls if n % 2 == 0 and 2 <= n <= 96)


SHAPES = ("src_dst", "self", "addr2")
PAIRS = [(str(code), verb) for code in CODES_SCHEMA for verb in VERBS if lengths(code, verb)]
# Parsers whose path count is a product of independent per-field forks (7^5 for 1030's parameter
# table, 2^n for 31DA's / 2411's optional fields) or whose obligations the solvers do not
# decide in the budget (0418 fault-log entry, 3220 OpenTherm frame): outside the generator's
# reach.  They get the *bounded* native stand-in `outside_reach_payloads_native` (never counted
# as proved) and are listed in the evidence.
OUTSIDE_REACH = {"0418": "fault-log entry: solver time", "3220": "OpenTherm frame: struct.unpack, >64-bit operations"}
# 31DA (18 independent field decoders: 2^18+ paths when inlined) is decided MODULARLY instead: every field decoder
# under its own contract (field_decoder_contract), parser_31da / Message against those contracts
# (parser_31da_is_the_merge_of_its_fields, hvac_state_decodes_or_is_rejected).
# 1030 (7^5 paths: five parameter groups, seven table entries each) likewise: the per-parameter decoder, a function
# defined INSIDE parser_1030, has its own contract (mix_param_decoder_contract) and parser_1030 / Message are run
# against it (mix_config_decodes_or_is_rejected).
# 2411 (four values through one codec: paths^4): hex_to_temp / hex_to_percent by their C04 contracts, parser_2411 under
# its own contract (fan_param_parser_contract; the 23-byte forms only in the thorough tier: 12 k paths each), Message
# against that contract (fan_param_decodes_or_is_rejected).
MODULAR = {"31DA", "1030", "2411"}


def _in_reach(code, verb, n):
    return (code not in OUTSIDE_REACH and code not in MODULAR) or (verb == "RQ" and n <= 3)


ALL_CASES = [(code, verb, n, shape) for code, verb in PAIRS for n in lengths(code, verb) for shape in SHAPES]
CASES = [c for c in ALL_CASES if _in_reach(c[0], c[1], c[2])]
QUICK_CODES = set(CODES_WITH_ARRAYS) | {k.split("|")[1] for k in CODE_API_MAP} | {
    "0005", "000C", "0008", "0404", "0418", "10E0", "12B0", "1F09", "1FC9", "3150", "31D9", "31DA", "3B00", "3EF0"}


def _quick(code, verb, n, shape):
    first = n == lengths(code, verb)[0] or code == "3EF0"  # (3EF0: every length -- its ratios differ per length)
    return code in QUICK_CODES and first and shape == ("self" if verb == " I" else "src_dst")


def sym_frame(code, verb, n, shape):
    """A frame of this code/verb/length: payload within the schema regex, one legal address shape."""
    p = sym_str("payload", 2 * n, "HEX")
    assume(re.compile(CODES_SCHEMA[code][verb]).match(p) is not None)
    src = sym_dev("src")
    assume(src != "63:262142")
    if shape == "src_dst":
        dst = sym_dev("dst")
        assume(dst != src)
        addrs = f"{src} {dst} {NON}"
    elif shape == "self":
        addrs = f"{src} {NON} {src}"
    else:
        addrs = f"{NON} {NON} {src}"
    seqn = sym_choice("seqn", ["---", "123"])
    return p, f"{verb} {seqn} {addrs} {code} {n:03d} {p}"


def hex_to_str_callsite(value):
    """Call-site contract of helpers.hex_to_str on a hex string of even length: some str, no
    exception.  (The real function forks once per byte -- 2^20 paths for a zone name; it is
    discharged on its own by hex_to_str_contract below.)"""
    check(And(isinstance(value, str), len(value) % 2 == 0), "[C05] hex_to_str is called with an even-length hex string")
    for v, r in ghost("hex_to_str"):  # a function: the same argument gives the same text
        if len(v) == len(value) and is_concrete(v == value) and v == value:
            return r
    r = sym_text("decoded_text")
    ghost("hex_to_str").append((value, r))
    return r


def json_able(x):
    """Plain JSON data: None, bool, int, float, str, and lists / str-keyed dicts of those."""
    if x is None or isinstance(x, (bool, int, float, str)):
        return True
    if isinstance(x, (list, tuple)):
        return all(json_able(e) for e in x)
    if isinstance(x, dict):
        return all(isinstance(k, str) and json_able(v) for k, v in x.items())
    return False


@harness("C05", cases=[(n,) for n in (0, 1, 2, 3)])
def hex_to_str_contract(n):
    """hex_to_str on n bytes of hex: never raises, returns a str of at most n printable ASCII
    characters (per byte: kept iff 31 < byte < 127).  Proved for n <= 3; the function is a
    byte-wise filter, so longer inputs repeat the same step (bounded in n, stated)."""
    h = sym_str("h", 2 * n, "HEX")
    o = outcome(H.hex_to_str, h)
    check(o.ok and isinstance(o.value, str), "hex_to_str returns a str and does not raise")
    check(len(o.value) <= n, "at most one character per byte")
    check(all(31 < ord(c) < 127 for c in o.value), "only printable ASCII characters are kept")


@harness(("C01", "C05"), cases=CASES, quick=_quick, budget_s=300, heavy=lambda code, *a: code in HEAVY,
         subst={_packet.pkt_lifespan: pkt_lifespan_may_raise, H.hex_to_str: hex_to_str_callsite})
def payload_decodes_or_is_rejected(code, verb, n, shape):
    payload, frame = sym_frame(code, verb, n, shape)
    p = outcome(Packet.from_port, NOW, "000 " + frame)
    assume(p.ok)
    m = outcome(Message, p.value)
    check(Or(m.ok, m.raised_in(exc.PacketInvalid)), "[C01] a packet decodes to a message or is rejected with PacketInvalid, nothing else")
    if m.ok:
        cover("decoded")
        check(json_able(m.value.payload), "[C05] the decoded payload is plain JSON data")
        check(ranges_ok(m.value.payload), "[C05] ratios are within 0..1 and temperatures within the wire range")
        check(idx_consistent(code, payload, m.value.payload), "[C05] a reported zone/domain/log index is the one carried in the frame")


RATIO_KEYS = {"relay_demand", "heat_demand", "battery_level", "modulation_level", "max_rel_modulation", "vent_demand",
              "percent_remaining", "rel_humidity", "indoor_humidity", "outdoor_humidity", "bypass_position", "valve_position"}
IDX_KEYS = ("zone_idx", "domain_id", "dhw_idx", "ufh_idx")


def ranges_ok(x):
    """Every ratio is None or within 0..1; every temperature is None/False or on the wire range."""
    if isinstance(x, (list, tuple)):
        return all(ranges_ok(e) for e in x)
    if not isinstance(x, dict):
        return True
    r = True
    for k, v in x.items():
        if isinstance(v, (dict, list)):
            r = And(r, ranges_ok(v))
        elif k in RATIO_KEYS and isinstance(v, float):
            r = And(r, v >= 0.0, v <= 1.0)
        elif isinstance(k, str) and ("temp" in k or k == "setpoint") and isinstance(v, float):
            r = And(r, v >= -273.15, v <= 327.67)
    return r


def idx_consistent(code, payload, decoded):
    """Any zone/domain/circuit index the decoded payload reports is the byte carried in the frame."""
    if isinstance(decoded, list):
        return True  # arrays: see array_is_elementwise
    r = True
    for k in IDX_KEYS:
        if k in decoded and code != "000C":
            if code == "0404":  # the hot-water schedule is identified by its type (23): index 'HW'
                r = And(r, decoded[k] == Ite(payload[2:4] == "23", "HW", payload[:2])) if False else And(
                    r, Or(And(payload[2:4] == "23", decoded[k] == "HW"), And(payload[2:4] != "23", decoded[k] == payload[:2])))
            else:
                r = And(r, decoded[k] == payload[:2])
    if "log_idx" in decoded:
        r = And(r, decoded["log_idx"] == payload[4:6])
    return r


def decode(frame):
    return Message(Packet.from_port(NOW, "000 " + frame))


HISTORY_QUICK = (set(CODES_WITH_ARRAYS) | {"0008", "1F09", "3EF0", "10A0", "1260", "12B0"}) - {"22C9", "000A"}
HEAVY = {"22C9", "000A", "2349", "2249", "3150", "2411", "1F41"}


@harness("C05", cases=[c for c in CASES], quick=lambda code, verb, n, shape: _quick(code, verb, n, shape) and code in HISTORY_QUICK,
         budget_s=600, vacuous_ok=lambda *a: True, heavy=lambda code, *a: code in HEAVY,
         subst={_packet.pkt_lifespan: pkt_lifespan_may_raise, H.hex_to_str: hex_to_str_callsite})
def decode_is_history_independent(code, verb, n, shape):
    """Decoding B, then a packet A that shares B's payload but carries a sequence number (so
    that every payload-keyed cache is hit with a different packet context), then B again
    gives the same payload for B: no dependence on prior packets or caches (lru_cache'd
    helpers are modelled as caches, so a cached mutable result that a caller writes to
    shows up here)."""
    pb, fb = sym_frame(code, verb, n, shape)
    fb = fb[:3] + "---" + fb[6:]
    fa = fb[:3] + "123" + fb[6:]
    m1 = outcome(decode, fb)
    assume(m1.ok)
    outcome(decode, fa)
    m3 = outcome(decode, fb)
    check(m3.ok, "the same packet decodes again after another packet was decoded")
    check(m3.value.payload == m1.value.payload, "the same packet decodes to the same payload, whatever was decoded in between")


ARRAY_CASES = [(str(code), k, mode) for code in CODES_WITH_ARRAYS for k in range(1, 9)
               if CODES_WITH_ARRAYS[code][0] * k in lengths(code, " I")
               for mode in (("free", "same_body") if (k == 2 and str(code) in ("0009", "2309", "30C9")) else ("same_body",))]


@harness("C05", cases=ARRAY_CASES, quick=lambda code, k, mode: k == 2 and mode == "same_body", budget_s=900, heavy=lambda code, *a: code in HEAVY,
         subst={_packet.pkt_lifespan: pkt_lifespan_may_raise})
def array_is_elementwise(code, k, mode):
    """An I-array of k elements decodes to the list of what each element decodes to alone, in
    order.  mode 'free': all elements independent (k = 2); mode 'same_body': every element has
    its own symbolic index byte and all share one symbolic body (the element parsers are
    applied independently per element, so the shared body keeps the path count linear in k)."""
    el = CODES_WITH_ARRAYS[code][0]
    src = CODES_WITH_ARRAYS[code][1][0] + ":" + sym_str("src_n", 6, "digit")
    if mode == "free":
        elems = [sym_str(f"e{i}", 2 * el, "HEX") for i in range(k)]
    else:
        body = sym_str("body", 2 * el - 2, "HEX")
        elems = [sym_str(f"idx{i}", 2, "HEX") + body for i in range(k)]
    rx = re.compile(CODES_SCHEMA[code][" I"])
    whole = outcome(decode, f" I --- {src} {NON} {src} {code} {el * k:03d} " + "".join(elems))
    assume(whole.ok)
    assume(isinstance(whole.value.payload, list))
    cover("array")
    check(len(whole.value.payload) == k, "one decoded element per array element")
    for i in range(k):
        assume(rx.match(elems[i]) is not None)
        one = outcome(decode, f" I --- {src} {NON} {src} {code} {el:03d} " + elems[i])
        if one.ok and isinstance(one.value.payload, dict) and len(whole.value.payload) == k:
            check(whole.value.payload[i] == one.value.payload, "element i of the array decodes as it does on its own")


# ---- bounded stand-in for the parsers outside the generator's reach ---------------------------------
from pyvc.harness import native  # noqa: E402


def random_match(rx, rng):
    """A random string accepted by the regex (walk over CPython's own parse tree)."""
    import re._constants as C
    import re._parser as P

    def gen(tree):
        out = []
        for op, av in tree:
            if op is C.LITERAL:
                out.append(chr(av))
            elif op is C.IN:
                opts = []
                for o2, a2 in av:
                    if o2 is C.LITERAL:
                        opts.append(chr(a2))
                    elif o2 is C.RANGE:
                        opts.extend(chr(c) for c in range(a2[0], a2[1] + 1))
                out.append(rng.choice(opts))
            elif op is C.BRANCH:
                out.append(gen(rng.choice(av[1])))
            elif op is C.SUBPATTERN:
                out.append(gen(av[3]))
            elif op in (C.MAX_REPEAT, C.MIN_REPEAT):
                lo, hi, sub = av
                hi = lo + 3 if hi is C.MAXREPEAT else hi
                out.append("".join(gen(sub) for _ in range(rng.randint(lo, min(hi, lo + 8)))))
            elif op is C.AT:
                pass
            elif op is C.ANY:
                out.append(rng.choice(HEXA))
            else:
                raise ValueError(op)
        return "".join(out)

    return gen(P.parse(rx))


@native(("C01", "C05"))
def outside_reach_payloads_native(seed, n):
    """Bounded: random schema-conforming payloads of the codes in OUTSIDE_REACH through the real
    Message(Packet(...)): decodes to JSON-able data or PacketInvalid, nothing else."""
    import json
    import logging
    import random
    rng = random.Random(seed)
    logging.disable(logging.CRITICAL)
    fails, evals = [], 0
    try:
        for code in sorted(OUTSIDE_REACH):
            for verb in VERBS:
                rx = CODES_SCHEMA[code].get(verb)
                if not isinstance(rx, str):
                    continue
                for _ in range(max(20, n // 3)):
                    pl = random_match(rx, rng)
                    if len(pl) % 2 or not 2 <= len(pl) <= 96 or not re.match(rx, pl):
                        continue
                    a, b = f"{rng.choice(['01', '10', '18', '30', '32', '37'])}:{rng.randint(0, 262143):06d}", f"{rng.choice(['01', '10', '18', '30', '32', '37'])}:{rng.randint(0, 262143):06d}"
                    addrs = f"{a} {NON} {a}" if verb == " I" and rng.random() < 0.5 else (f"{a} {b} {NON}" if a != b else f"{a} {NON} {a}")
                    frame = f"{verb} --- {addrs} {code} {len(pl) // 2:03d} {pl}"
                    evals += 1
                    try:
                        m = Message(Packet.from_port(NOW, "000 " + frame))
                        json.dumps(m.payload)
                    except exc.PacketInvalid:
                        pass
                    except Exception as e:  # noqa: BLE001
                        fails.append({"label": "decodes to JSON-able data or is rejected with PacketInvalid", "witness": {"seed": seed, "frame": frame, "raised": f"{type(e).__name__}: {e}"}})
    finally:
        logging.disable(logging.NOTSET)
    return {"evaluations": evals, "failures": fails[:5]}


# ---- purity / frame conditions of the decode path (syntactic, on the current tree) ------------------
from pyvc.harness import structural  # noqa: E402

DECODE_MODULES = ("parsers", "helpers", "frame", "address", "opentherm", "fingerprints")
_MUTATORS = {"append", "extend", "insert", "add", "update", "setdefault", "pop", "popitem", "clear", "remove", "discard", "sort", "reverse"}


@structural("C05")
def decode_path_is_pure():
    """assigns(decode path) is within {locals, the object under construction}: no function of the
    decoder modules writes module state, and no cached function hands out a mutable value
    (a caller writing to it -- parse_payload adds 'seqx_num' to dict results -- would make a
    later decode depend on an earlier one)."""
    import ast
    import importlib
    import inspect
    out = []
    for modname in DECODE_MODULES:
        mod = importlib.import_module(f"ramses_tx.{modname}")
        tree = ast.parse(inspect.getsource(mod))
        module_names = {t.id for n in tree.body if isinstance(n, (ast.Assign, ast.AnnAssign))
                        for t in (n.targets if isinstance(n, ast.Assign) else [n.target]) if isinstance(t, ast.Name)}
        bad_global, bad_cache, bad_mut = [], [], []
        for fn in [n for n in ast.walk(tree) if isinstance(n, (ast.FunctionDef, ast.AsyncFunctionDef))]:
            local = {a.arg for a in fn.args.args + fn.args.kwonlyargs + fn.args.posonlyargs}
            for n in ast.walk(fn):
                if isinstance(n, (ast.Assign, ast.AnnAssign, ast.AugAssign, ast.For, ast.NamedExpr, ast.comprehension, ast.With)):
                    for t in ast.walk(n):
                        if isinstance(t, ast.Name) and isinstance(t.ctx, ast.Store):
                            local.add(t.id)
            cached = any("cache" in ast.unparse(d) for d in fn.decorator_list)
            for n in ast.walk(fn):
                if isinstance(n, (ast.Global, ast.Nonlocal)) and isinstance(n, ast.Global):
                    bad_global.append(f"{fn.name}:{n.lineno} global {','.join(n.names)}")
                if cached and isinstance(n, ast.Return) and n.value is not None:
                    v = n.value
                    if isinstance(v, (ast.Dict, ast.List, ast.Set, ast.DictComp, ast.ListComp, ast.SetComp)) or (
                            isinstance(v, ast.Call) and isinstance(v.func, ast.Name) and v.func.id in ("dict", "list", "set", "bytearray")):
                        bad_cache.append(f"{fn.name}:{n.lineno} cached function returns a mutable {type(v).__name__}")
                # mutation of a module-level container
                tgt = None
                if isinstance(n, ast.Call) and isinstance(n.func, ast.Attribute) and n.func.attr in _MUTATORS and isinstance(n.func.value, ast.Name):
                    tgt = n.func.value.id
                if isinstance(n, (ast.Assign, ast.AugAssign, ast.Delete)):
                    for t in (n.targets if isinstance(n, (ast.Assign, ast.Delete)) else [n.target]):
                        if isinstance(t, ast.Subscript) and isinstance(t.value, ast.Name):
                            tgt = t.value.id
                if tgt is not None and tgt in module_names and tgt not in local:
                    bad_mut.append(f"{fn.name}:{n.lineno} mutates module-level {tgt}")
        out.append((f"{modname}: no function declares a global to write", not bad_global, "; ".join(bad_global)))
        out.append((f"{modname}: no cached function returns a mutable value", not bad_cache, "; ".join(bad_cache)))
        out.append((f"{modname}: no function mutates a module-level container", not bad_mut, "; ".join(bad_mut)))
    return out


# ---- 31DA, modularly: eighteen field decoders, each under its own contract --------------------------------
from ramses_tx import parsers as _parsers  # noqa: E402

# the field decoders parser_31da calls, with the slice of the payload each is given
FIELDS_31DA = [("parse_exhaust_fan_speed", 38, 40), ("parse_fan_info", 36, 38), ("parse_air_quality", 2, 6), ("parse_co2_level", 6, 10),
               ("parse_indoor_humidity", 10, 12), ("parse_outdoor_humidity", 12, 14), ("parse_exhaust_temp", 14, 18),
               ("parse_supply_temp", 18, 22), ("parse_indoor_temp", 22, 26), ("parse_outdoor_temp", 26, 30), ("parse_capabilities", 30, 34),
               ("parse_bypass_position", 34, 36), ("parse_supply_fan_speed", 40, 42), ("parse_remaining_mins", 42, 46),
               ("parse_post_heater", 46, 48), ("parse_pre_heater", 48, 50), ("parse_supply_flow", 50, 54), ("parse_exhaust_flow", 54, 58)]
REJECTS = (AssertionError, ArithmeticError, AttributeError, LookupError, NotImplementedError, TypeError, ValueError)  # what Message._validate maps to PacketInvalid


BITMASK_FIELDS = ("parse_capabilities",)  # a 16-way independent bit filter: 2^16 paths symbolically; decided exhaustively instead


@harness(("C05", "C01"), cases=[(name, hi - lo) for name, lo, hi in FIELDS_31DA if name not in BITMASK_FIELDS])
def field_decoder_contract(name, width):
    """Each HVAC field decoder of helpers.py that parser_31da (and 12C8 / 1298 / 12A0 / 31D9 / 22F7 ...) calls,
    on EVERY hex string of the width it is given there: it returns a str-keyed dict of plain JSON values with
    ratios within 0..1 and temperatures on the wire range, or raises one of the errors Message._validate
    turns into PacketInvalid -- nothing else."""
    v = sym_str("field", width, "HEX")
    o = outcome(getattr(H, name), v)
    check(Or(o.ok, o.raised_in(REJECTS)), "[C01] a field decoder returns, or raises an error that rejects the packet, nothing else")
    if o.ok:
        cover("decoded")
        check(isinstance(o.value, dict) and json_able(o.value), "[C05] a field decodes to a dict of plain JSON data")
        check(ranges_ok(o.value), "[C05] its ratios are within 0..1 and its temperatures within the wire range")


def _field_callsite(name):
    def spec(value):
        """Recording call-site contract of a field decoder: some dict (a marker entry), or a rejecting error."""
        ghost("field_calls").append((name, value))
        if sym_bool("rejected_by_" + name):
            raise AssertionError(name)
        return {"_from_" + name: value}
    spec.__name__ = name + "_callsite"
    spec.__doc__ = f"{name} by its contract (field_decoder_contract): a dict of plain JSON data, or a rejecting error"
    return spec


FIELD_CALLSITES = {getattr(H, name): _field_callsite(name) for name, _, _ in FIELDS_31DA}


@harness(("C05", "C01"), cases=[(29,), (30,)], stubs={getattr(_parsers, n): FIELD_CALLSITES[getattr(H, n)] for n, _, _ in FIELDS_31DA})
def parser_31da_is_the_merge_of_its_fields(n):
    """parser_31da on any 29/30-byte payload, with every field decoder replaced by its contract: each decoder is
    called once, on its own slice of the payload and of exactly the width its contract was proved for; the result
    is the union of what they return; it raises only when one of them does.  With field_decoder_contract this
    gives: an I/RP|31DA decodes to plain JSON data with ratios / temperatures in range, or is rejected."""
    payload = sym_str("payload", 2 * n, "HEX")
    o = outcome(_parsers.parser_31da, payload, opaque("msg"))
    calls = ghost("field_calls")
    if o.ok:
        check(len(calls) == len(FIELDS_31DA), "every field decoder is called exactly once")
        for name, lo, hi in FIELDS_31DA:  # (in whatever order: the order of the entries of a JSON object carries no meaning)
            mine = [cval for cname, cval in calls if cname == name]
            check(len(mine) == 1 and mine[0] == payload[lo:hi], "each field decoder is given its own slice of the payload, of the width its contract covers")
        check(And(isinstance(o.value, dict), len(o.value) == len(FIELDS_31DA)), "the decoded payload is the union of the fields' dicts")
        for name, lo, hi in FIELDS_31DA:
            check(o.value.get("_from_" + name) == payload[lo:hi], "and holds each field's entries")
    else:
        check(isinstance(o.exc, AssertionError) and len(calls) >= 1, "parser_31da raises only what a field decoder raised")


@native("C05")
def bitmask_field_decoders_exhaustive(seed, n):
    """parse_capabilities on EVERY 4-hex-digit word (65 536 inputs: the whole domain, run natively -- its result
    is a 16-way independent bit filter, 2^16 symbolic paths): a dict of plain JSON data or a rejecting error.
    Complete for this finite domain, but an enumeration, not an SMT proof."""
    fails, evals = [], 0
    for name in BITMASK_FIELDS:
        f = getattr(H, name)
        for w in range(0x10000):
            evals += 1
            v = f"{w:04X}"
            try:
                r = f(v)
                ok = isinstance(r, dict) and json_able(r) and ranges_ok(r) is True
            except REJECTS:
                ok = True
            except BaseException:  # noqa: BLE001
                ok = False
            if not ok:
                fails.append({"label": f"{name} returns plain JSON data or a rejecting error", "witness": {"seed": seed, "field": v}})
                break
    return {"evaluations": evals, "failures": fails}


@harness(("C01", "C05"), cases=[c for c in ALL_CASES if c[0] == "31DA" and not _in_reach(*c[:3])],
         stubs={getattr(_parsers, n): FIELD_CALLSITES[getattr(H, n)] for n, _, _ in FIELDS_31DA}, subst={_packet.pkt_lifespan: pkt_lifespan_may_raise})
def hvac_state_decodes_or_is_rejected(code, verb, n, shape):
    """The message-level clause for 31DA (outside the reach of payload_decodes_or_is_rejected), with the field
    decoders by contract: Message(Packet(frame)) is a message whose payload is the fields' entries (plus nothing
    that is not plain JSON), or PacketInvalid -- nothing else."""
    payload, frame = sym_frame(code, verb, n, shape)
    p = outcome(Packet.from_port, NOW, "000 " + frame)
    assume(p.ok)
    m = outcome(Message, p.value)
    check(Or(m.ok, m.raised_in(exc.PacketInvalid)), "[C01] a packet decodes to a message or is rejected with PacketInvalid, nothing else")
    if m.ok:
        cover("decoded")
        check(json_able(m.value.payload), "[C05] the decoded payload is plain JSON data")
        check(all(m.value.payload.get("_from_" + name) == payload[lo:hi] for name, lo, hi in FIELDS_31DA), "[C05] and carries every field's entries")


# ---- 1030, modularly: the per-parameter decoder (a function defined inside parser_1030) under its own contract ----
PARAMS_1030 = ("unknown_20", "unknown_21", "max_flow_setpoint", "min_flow_setpoint", "valve_run_time", "pump_run_time", "boolean_cc")


@harness(("C05", "C01"))
def mix_param_decoder_contract():
    """parser_1030's inner _parser on EVERY 6-hex-digit group: one entry {parameter name: value 0..255} with the
    value the group's last byte, or a rejecting error (unknown parameter id, wrong length byte) -- nothing else."""
    f = inner_function(_parsers.parser_1030, "_parser")
    g = sym_str("group", 6, "HEX")
    o = outcome(f, g)
    check(Or(o.ok, o.raised_in(REJECTS)), "[C01] the parameter decoder returns, or raises an error that rejects the packet, nothing else")
    if o.ok:
        cover("decoded")
        check(isinstance(o.value, dict) and len(o.value) == 1, "[C05] one parameter per group")
        for k, v in o.value.items():
            check(k in PARAMS_1030, "[C05] the parameter is one of the seven known ones")
            check(And(v == int(g[4:], 16), v >= 0, v <= 255), "[C05] its value is the group's value byte")


def mix_param_callsite(seqx):
    """parser_1030._parser by its contract (mix_param_decoder_contract): one {name: value} entry, or a rejecting error."""
    ghost("param_calls").append(seqx)
    if sym_bool("rejected_group_" + str(len(ghost("param_calls")))):
        raise AssertionError(seqx)
    return {"_group_" + str(len(ghost("param_calls"))): seqx}


@harness(("C01", "C05"), cases=[c for c in ALL_CASES if c[0] == "1030" and not _in_reach(*c[:3])],
         subst={inner_name(_parsers.parser_1030, "_parser"): mix_param_callsite, _packet.pkt_lifespan: pkt_lifespan_may_raise})
def mix_config_decodes_or_is_rejected(code, verb, n, shape):
    """The message-level clause for 1030 (7^5 paths when inlined), with the per-parameter decoder by contract:
    every 3-byte group after the index byte is decoded exactly once, in order; Message(Packet(frame)) is a message
    holding the groups' entries and the frame's index, or PacketInvalid -- nothing else."""
    payload, frame = sym_frame(code, verb, n, shape)
    p = outcome(Packet.from_port, NOW, "000 " + frame)
    assume(p.ok)
    m = outcome(Message, p.value)
    check(Or(m.ok, m.raised_in(exc.PacketInvalid)), "[C01] a packet decodes to a message or is rejected with PacketInvalid, nothing else")
    if m.ok:
        cover("decoded")
        calls = ghost("param_calls")
        check(len(calls) == (n - 1) // 3, "[C05] every parameter group is decoded exactly once")
        for i, c in enumerate(calls):
            check(c == payload[2 + 6 * i: 8 + 6 * i], "[C05] each group is its own slice of the payload, in order")
            check(m.value.payload.get("_group_" + str(i + 1)) == c, "[C05] and its entry is in the decoded payload")
        check(json_able(m.value.payload), "[C05] the decoded payload is plain JSON data")
        check(idx_consistent(code, payload, m.value.payload), "[C05] a reported zone/domain/log index is the one carried in the frame")


# ---- 2411, modularly: the two value codecs by their C04 contracts -----------------------------------------------
from .c04_codecs import s16  # noqa: E402


def hex_to_temp_by_contract(value):
    """hex_to_temp by its contract (C04 hex_to_temp_contract): None / False for the sentinels, ValueError below
    absolute zero, else s16(word)/100.  Anything but a 4-hex word: the real function."""
    if not is_hex_word(value, 4):
        return real(H.hex_to_temp, value)
    if value == "31FF" or value == "7FFF":
        return None
    if value == "7EFF":
        return False
    k = s16(value)
    if k < -27315:
        raise ValueError("below absolute zero")
    return k / 100


def hex_to_percent_by_contract(value, high_res=True):
    """hex_to_percent by its contract (C04 hex_to_percent_contract): None for EF / Fx, ValueError above 100 %,
    else raw/200 (raw/100).  Anything but a 2-hex byte: the real function."""
    if not is_hex_word(value, 2):
        return real(H.hex_to_percent, value, high_res)
    raw = int(value, 16)
    if raw >= 240 or value == "EF":
        return None
    if raw > (200 if high_res else 100):
        raise ValueError("above 100%")
    return raw / (200 if high_res else 100)


def is_hex_word(value, n):
    return isinstance(value, str) and len(value) == n


class MsgOfParser:
    """What a payload parser reads of its Message: the verb and the payload's byte count."""

    def __init__(self, verb, n):
        self.verb, self.len = verb, n


CASES_2411 = sorted({(c[1], c[2]) for c in ALL_CASES if c[0] == "2411" and not _in_reach(*c[:3])})


@harness(("C05", "C01"), cases=CASES_2411, quick=lambda verb, n: n < 23, budget_s=3600, heavy=lambda *a: True,
         subst={H.hex_to_temp: hex_to_temp_by_contract, H.hex_to_percent: hex_to_percent_by_contract})
def fan_param_parser_contract(verb, n):
    """parser_2411 itself (its four values go through one codec: paths^4 when inlined), on EVERY payload of the schema
    for the verb and length, with hex_to_temp / hex_to_percent by their C04 contracts: a dict of plain JSON data
    whose parameter id is the payload's, or an error that rejects the packet -- nothing else."""
    payload = sym_str("payload", 2 * n, "HEX")
    assume(re.compile(CODES_SCHEMA["2411"][verb]).match(payload) is not None)
    o = outcome(_parsers.parser_2411, payload, MsgOfParser(verb, n))
    check(Or(o.ok, o.raised_in(REJECTS)), "[C01] parser_2411 returns, or raises an error that rejects the packet, nothing else")
    if o.ok:
        cover("decoded")
        check(isinstance(o.value, dict) and json_able(o.value), "[C05] the decoded payload is plain JSON data")
        check(ranges_ok(o.value), "[C05] ratios are within 0..1 and temperatures within the wire range")
        check(o.value.get("parameter") == payload[4:6], "[C05] the parameter reported is the one carried in the payload")


def parser_2411_callsite(payload, msg):
    """parser_2411 by its contract (fan_param_parser_contract): a dict of plain JSON data naming the payload's
    parameter, or a rejecting error."""
    ghost("parser_calls").append(payload)
    if sym_bool("rejected_by_parser_2411"):
        raise AssertionError("2411")
    return {"parameter": payload[4:6], "_from_parser_2411": payload}


@harness(("C01", "C05"), cases=[c for c in ALL_CASES if c[0] == "2411" and not _in_reach(*c[:3])],
         subst={_parsers.parser_2411: parser_2411_callsite, _packet.pkt_lifespan: pkt_lifespan_may_raise})
def fan_param_decodes_or_is_rejected(code, verb, n, shape):
    """The message-level clause for 2411 with parser_2411 by its contract: a message of plain JSON data naming the
    frame's parameter, or PacketInvalid -- nothing else."""
    payload, frame = sym_frame(code, verb, n, shape)
    p = outcome(Packet.from_port, NOW, "000 " + frame)
    assume(p.ok)
    m = outcome(Message, p.value)
    check(Or(m.ok, m.raised_in(exc.PacketInvalid)), "[C01] a packet decodes to a message or is rejected with PacketInvalid, nothing else")
    if m.ok:
        cover("decoded")
        check(json_able(m.value.payload), "[C05] the decoded payload is plain JSON data")
        check(m.value.payload.get("parameter") == payload[4:6], "[C05] the parameter reported is the one carried in the frame")
