"""C13 -- "views always answer": the value views that do more than look a key up, on the state that
received packets can put there.

Functions under contract: entity_base._MessageDB._msg_value_msg (every thin view goes through it),
system.heat.System.heat_demands / relay_demands, system.heat.SystemBase.heat_demand,
system.zones.Zone.heat_demand, UfhZone.heat_demand, zones._transform, device.heat.TrvActuator.heat_demand.
The stored messages are REAL Messages decoded from symbolic frames (the decoder is the one C05 puts
under contract), so "any value the schema admits" includes the FF/EF/Fx sentinels.
Not under contract: the remaining ~150 composite views (schema/params/status dictionaries, OpenTherm
views) -- listed by the structural inventory below, not proved.
"""
import ast
import inspect
from datetime import datetime as dt

from pyvc.api import *  # noqa: F401,F403
from pyvc.harness import harness, structural
from ramses_rf import entity_base as EB
from ramses_rf.device import heat as DH
from ramses_rf.system import heat as SH
from ramses_rf.system import zones as Z
from ramses_tx.message import Message
from ramses_tx.packet import Packet

T0 = dt(2023, 11, 30, 13, 15)
CTL = "01:145038"
TRV = "04:111111"


class FakeLoop:
    def call_soon(self, fn, *args):
        pass


class FakeGwy:
    def __init__(self):
        self._loop = FakeLoop()
        self._zzz = None

    def _dt_now(self):
        return T0


def decoded(frame):
    """The Message the real decoder makes of a frame (None if it rejects it)."""
    o = outcome(lambda: Message(Packet.from_port(T0, "045 " + frame)))
    if not o.ok:
        return None
    m = o.value
    m._gwy = FakeGwy()
    _ = m.payload
    return m


def ctl_msg(code, n=2):
    """An I|code from the controller with any payload of n bytes that the decoder accepts."""
    p = sym_str("payload", 2 * n, "HEX")
    m = decoded(f" I --- {CTL} --:------ {CTL} {code} {n:03d} {p}")
    assume(m is not None)
    return m


# ---- the lookup every thin view goes through ---------------------------------------------------------
@harness("C13", cases=[("3150",), ("0008",), ("3B00",)])
def system_value_lookup_answers(code):
    """_MessageDB._msg_value_msg as the system's views call it -- no index, or domain_id=FC -- on the
    latest I|code the controller sent, whatever index and value that packet carries (a zone's
    3150 as well as the FC domain's; sentinels): returns a value or None, never raises."""
    db = new_object(EB._MessageDB, _gwy=FakeGwy(), id=CTL)
    m = ctl_msg(code)
    how = sym_choice("asked_with", ["nothing", "key", "domain_id", "domain_id+key"])
    kw = {}
    if "key" in how:
        kw["key"] = {"3150": "heat_demand", "0008": "relay_demand", "3B00": "actuator_sync"}[code]
    if "domain_id" in how:
        kw["domain_id"] = "FC"
    o = outcome(db._msg_value_msg, m, **kw)
    check(o.ok, "a value view answers (a value or None) whatever packet was stored last")
    if o.ok and "domain_id" in how and m.payload.get("domain_id") != "FC":
        check(o.value is None, "a view asking for the FC domain does not report another zone's value")


# ---- the system's demand views -----------------------------------------------------------------------
@harness("C13", cases=[("heat_demands", "3150"), ("relay_demands", "0008")])
def system_demand_views_answer(view, code):
    """System.heat_demands / relay_demands after System._handle_msg stored any I|3150 / I|0008 of the
    controller (domain FC/F9/FA or a zone; demand 00-C8 or a sentinel EF/F0-FF): the view returns a
    dict or None, never raises."""
    tcs = new_object(SH.System, _gwy=FakeGwy(), id=CTL, _heat_demands={}, _relay_demands={}, _relay_failsafes={})
    m = ctl_msg(code)
    idx = m.payload.get("domain_id")
    if idx:  # what System._handle_msg does with it
        (tcs._heat_demands if code == "3150" else tcs._relay_demands)[idx] = m
        cover("a domain message was stored")
    o = outcome(getattr, tcs, view)
    check(o.ok, "the system's demand view answers whatever demand packet was stored")


# ---- zone heat demand --------------------------------------------------------------------------------
class NoDemandDevice:
    """An actuator of a class without the heat_demand view (e.g. a BDR)."""


@harness("C13", cases=[(1,), (2,)])
def zone_heat_demand_answers(n):
    """Zone.heat_demand over n actuators, each a real TrvActuator whose latest I|3150 carries any demand
    byte the schema admits (00-C8, EF not-implemented, F0-FF fault), a TRV that sent none, or a
    device without the view: a number in 0..1 or None, never raises."""
    acts = []
    for i in range(n):
        kind = sym_choice(f"actuator_{i}", ["trv", "silent_trv", "other"])
        if kind == "other":
            acts.append(NoDemandDevice())
            continue
        msgs = {}
        if kind == "trv":
            v = sym_str(f"demand_{i}", 2, "HEX")
            m = decoded(f" I --- {TRV} --:------ {CTL} 3150 002 03{v}")
            assume(m is not None)
            msgs["3150"] = m
        acts.append(new_object(DH.TrvActuator, _gwy=FakeGwy(), id=TRV, _msgs_=msgs, _msgz_={}))
    zone = new_object(Z.Zone, _gwy=FakeGwy(), id=CTL + "_03", _child_id="03", actuators=acts, _msgs_={}, _msgz_={})
    o = outcome(getattr, zone, "heat_demand")
    check(o.ok, "the zone's heat demand view answers whatever its actuators last reported")
    if o.ok and o.value is not None:
        check(And(o.value >= 0, o.value <= 1), "and is a fraction between 0 and 1")


@harness("C13")
def transform_is_total():
    """zones._transform (valve position -> demand as shown by the controller UI) for every position the
    decoder can produce (0.0-1.0 in steps of 0.005): returns a number in 0..1, never raises."""
    k = sym_int("half_percent", 0, 200)
    o = outcome(Z._transform, k / 200)
    check(o.ok, "_transform answers for every valve position")
    if o.ok:
        check(And(o.value >= 0, o.value <= 1), "with a fraction between 0 and 1")


# ---- inventory: what is and is not under contract ---------------------------------------------------------
THIN = ("_msg_value", "_msg_value_msg", "_msg_value_code", "_msg_flag")
UNDER_CONTRACT = {("System", "heat_demands"), ("System", "relay_demands"), ("SystemBase", "heat_demand"), ("Zone", "heat_demand"),
                  ("UfhZone", "heat_demand"), ("TrvActuator", "heat_demand")}


def view_inventory():
    """(thin, contracted, other) view properties of the entity classes, by syntactic shape."""
    import ramses_rf.device.base as DB
    import ramses_rf.device.hvac as HV
    thin, contracted, other = [], [], []
    for mod in (EB, DB, DH, HV, SH, Z):
        tree = ast.parse(inspect.getsource(mod))
        for c in [n for n in ast.walk(tree) if isinstance(n, ast.ClassDef)]:
            for fn in c.body:
                if not (isinstance(fn, ast.FunctionDef) and any(isinstance(d, ast.Name) and d.id == "property" for d in fn.decorator_list)):
                    continue
                body = [s for s in fn.body if not (isinstance(s, ast.Expr) and isinstance(s.value, ast.Constant))]
                v = body[0].value if len(body) == 1 and isinstance(body[0], ast.Return) else None
                if (c.name, fn.name) in UNDER_CONTRACT:
                    contracted.append(f"{c.name}.{fn.name}")
                elif isinstance(v, ast.Call) and isinstance(v.func, ast.Attribute) and v.func.attr in THIN:
                    thin.append(f"{c.name}.{fn.name}")
                else:
                    other.append(f"{c.name}.{fn.name}")
    return thin, contracted, other


@structural("C13")
def views_under_contract_exist():
    thin, contracted, other = view_inventory()
    return [
        (f"{len(thin)} views are a single _msg_value lookup (covered by the lookup contract)", len(thin) > 0, ", ".join(thin[:8]) + " ..."),
        ("every view named in UNDER_CONTRACT still exists in the code", len(contracted) == len(UNDER_CONTRACT), ", ".join(contracted)),
        (f"{len(other)} composite views are NOT under contract (assumption, listed in the evidence)", True, ", ".join(other[:12]) + " ..."),
    ]
