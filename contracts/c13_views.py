"""C13 -- "views always answer": the value views that do more than look a key up, on the state that
received packets can put there.

Functions under contract: entity_base._MessageDB._msg_value_msg (every thin view goes through it),
system.heat.System.heat_demands / relay_demands, system.heat.SystemBase.heat_demand,
system.zones.Zone.heat_demand, UfhZone.heat_demand, zones._transform, device.heat.TrvActuator.heat_demand.
The stored messages are REAL Messages decoded from symbolic frames (the decoder is the one C05 puts
under contract), so "any value the schema admits" includes the FF/EF/Fx sentinels.
Not under contract: the remaining ~150 composite views (schema/params/status dictionaries, OpenTherm
views) -- listed by the structural inventory below, not proved.
"""
import ast
import inspect
from datetime import datetime as dt

from pyvc.api import *  # noqa: F401,F403
from pyvc.harness import harness, native, structural
from ramses_rf import entity_base as EB
from ramses_rf.device import heat as DH
from ramses_rf.system import heat as SH
from ramses_rf.system import zones as Z
from ramses_tx.message import Message
from ramses_tx.packet import Packet

T0 = dt(2023, 11, 30, 13, 15)
CTL = "01:145038"
TRV = "04:111111"


class FakeLoop:
    def call_soon(self, fn, *args):
        pass


class FakeGwy:
    def __init__(self):
        self._loop = FakeLoop()
        self._zzz = None

    def _dt_now(self):
        return T0


def decoded(frame):
    """The Message the real decoder makes of a frame (None if it rejects it)."""
    o = outcome(lambda: Message(Packet.from_port(T0, "045 " + frame)))
    if not o.ok:
        return None
    m = o.value
    m._gwy = FakeGwy()
    _ = m.payload
    return m


def ctl_msg(code, n=2):
    """An I|code from the controller with any payload of n bytes that the decoder accepts."""
    p = sym_str("payload", 2 * n, "HEX")
    m = decoded(f" I --- {CTL} --:------ {CTL} {code} {n:03d} {p}")
    assume(m is not None)
    return m


# ---- the lookup every thin view goes through ---------------------------------------------------------
@harness("C13", cases=[("3150",), ("0008",), ("3B00",)])
def system_value_lookup_answers(code):
    """_MessageDB._msg_value_msg as the system's views call it -- no index, or domain_id=FC -- on the
    latest I|code the controller sent, whatever index and value that packet carries (a zone's
    3150 as well as the FC domain's; sentinels): returns a value or None, never raises."""
    db = new_object(EB._MessageDB, _gwy=FakeGwy(), id=CTL)
    m = ctl_msg(code)
    how = sym_choice("asked_with", ["nothing", "key", "domain_id", "domain_id+key"])
    kw = {}
    if "key" in how:
        kw["key"] = {"3150": "heat_demand", "0008": "relay_demand", "3B00": "actuator_sync"}[code]
    if "domain_id" in how:
        kw["domain_id"] = "FC"
    o = outcome(db._msg_value_msg, m, **kw)
    check(o.ok, "a value view answers (a value or None) whatever packet was stored last")
    if o.ok and "domain_id" in how and m.payload.get("domain_id") != "FC":
        check(o.value is None, "a view asking for the FC domain does not report another zone's value")


# ---- the system's demand views -----------------------------------------------------------------------
@harness("C13", cases=[("heat_demands", "3150"), ("relay_demands", "0008")])
def system_demand_views_answer(view, code):
    """System.heat_demands / relay_demands after System._handle_msg stored any I|3150 / I|0008 of the
    controller (domain FC/F9/FA or a zone; demand 00-C8 or a sentinel EF/F0-FF): the view returns a
    dict or None, never raises."""
    tcs = new_object(SH.System, _gwy=FakeGwy(), id=CTL, _heat_demands={}, _relay_demands={}, _relay_failsafes={})
    m = ctl_msg(code)
    idx = m.payload.get("domain_id")
    if idx:  # what System._handle_msg does with it
        (tcs._heat_demands if code == "3150" else tcs._relay_demands)[idx] = m
        cover("a domain message was stored")
    o = outcome(getattr, tcs, view)
    check(o.ok, "the system's demand view answers whatever demand packet was stored")


# ---- zone heat demand --------------------------------------------------------------------------------
class NoDemandDevice:
    """An actuator of a class without the heat_demand view (e.g. a BDR)."""


@harness("C13", cases=[(1,), (2,)])
def zone_heat_demand_answers(n):
    """Zone.heat_demand over n actuators, each a real TrvActuator whose latest I|3150 carries any demand
    byte the schema admits (00-C8, EF not-implemented, F0-FF fault), a TRV that sent none, or a
    device without the view: a number in 0..1 or None, never raises."""
    acts = []
    for i in range(n):
        kind = sym_choice(f"actuator_{i}", ["trv", "silent_trv", "other"])
        if kind == "other":
            acts.append(NoDemandDevice())
            continue
        msgs = {}
        if kind == "trv":
            v = sym_str(f"demand_{i}", 2, "HEX")
            m = decoded(f" I --- {TRV} --:------ {CTL} 3150 002 03{v}")
            assume(m is not None)
            msgs["3150"] = m
        acts.append(new_object(DH.TrvActuator, _gwy=FakeGwy(), id=TRV, _msgs_=msgs, _msgz_={}))
    zone = new_object(Z.Zone, _gwy=FakeGwy(), id=CTL + "_03", _child_id="03", actuators=acts, _msgs_={}, _msgz_={})
    o = outcome(getattr, zone, "heat_demand")
    check(o.ok, "the zone's heat demand view answers whatever its actuators last reported")
    if o.ok and o.value is not None:
        check(And(o.value >= 0, o.value <= 1), "and is a fraction between 0 and 1")


@harness("C13")
def transform_is_total():
    """zones._transform (valve position -> demand as shown by the controller UI) for every position the
    decoder can produce (0.0-1.0 in steps of 0.005): returns a number in 0..1, never raises."""
    k = sym_int("half_percent", 0, 200)
    o = outcome(Z._transform, k / 200)
    check(o.ok, "_transform answers for every valve position")
    if o.ok:
        check(And(o.value >= 0, o.value <= 1), "with a fraction between 0 and 1")


# ---- inventory: what is and is not under contract ---------------------------------------------------------
THIN = ("_msg_value", "_msg_value_msg", "_msg_value_code", "_msg_flag")
UNDER_CONTRACT = {("System", "heat_demands"), ("System", "relay_demands"), ("SystemBase", "heat_demand"), ("Zone", "heat_demand"),
                  ("UfhZone", "heat_demand"), ("TrvActuator", "heat_demand")}


def view_inventory():
    """(thin, contracted, other) view properties of the entity classes, by syntactic shape."""
    import ramses_rf.device.base as DB
    import ramses_rf.device.hvac as HV
    thin, contracted, other = [], [], []
    for mod in (EB, DB, DH, HV, SH, Z):
        tree = ast.parse(inspect.getsource(mod))
        for c in [n for n in ast.walk(tree) if isinstance(n, ast.ClassDef)]:
            for fn in c.body:
                if not (isinstance(fn, ast.FunctionDef) and any(isinstance(d, ast.Name) and d.id == "property" for d in fn.decorator_list)):
                    continue
                body = [s for s in fn.body if not (isinstance(s, ast.Expr) and isinstance(s.value, ast.Constant))]
                v = body[0].value if len(body) == 1 and isinstance(body[0], ast.Return) else None
                if (c.name, fn.name) in UNDER_CONTRACT:
                    contracted.append(f"{c.name}.{fn.name}")
                elif isinstance(v, ast.Call) and isinstance(v.func, ast.Attribute) and v.func.attr in THIN:
                    thin.append(f"{c.name}.{fn.name}")
                else:
                    other.append(f"{c.name}.{fn.name}")
    return thin, contracted, other


@structural("C13")
def views_under_contract_exist():
    thin, contracted, other = view_inventory()
    return [
        (f"{len(thin)} views are a single _msg_value lookup (covered by the lookup contract)", len(thin) > 0, ", ".join(thin[:8]) + " ..."),
        ("every view named in UNDER_CONTRACT still exists in the code", len(contracted) == len(UNDER_CONTRACT), ", ".join(contracted)),
        (f"{len(other)} composite views are NOT under contract (assumption, listed in the evidence)", True, ", ".join(other[:12]) + " ..."),
    ]


# ---- bounded stand-in for the views that are not under contract ------------------------------------------
_LINE = None
_SENTINELS = "00 FF 7F EF F0 FE C8 C9 80 01".split()


def _mutated_payload(pl, rx, rng):
    import re

    from .c05_payloads import random_match
    for _ in range(20):
        cand = random_match(rx, rng)
        if len(cand) != len(pl):
            continue
        c = list(cand)
        for _ in range(rng.randint(0, 3)):  # bias towards sentinel bytes, where the schema admits them
            i = rng.randrange(0, len(c) // 2) * 2
            d = c[:]
            d[i:i + 2] = rng.choice(_SENTINELS)
            if re.match(rx, "".join(d)):
                c = d
        return "".join(c)
    return None


def _all_views(gwy):
    errs = []

    def chk(name, f):
        try:
            f()
        except Exception as e:  # noqa: BLE001
            errs.append((name, f"{type(e).__name__}({e})"[:160]))

    for a in ("schema", "params", "status", "known_list"):
        chk("gwy." + a, lambda a=a: getattr(gwy, a))
    chk("gwy.get_state()", gwy.get_state)
    chk("gwy.get_state(include_expired=True)", lambda: gwy.get_state(True))
    ents = [("device " + d.id, d) for d in gwy.devices]
    for t in gwy.systems:
        ents.append(("system " + t.id, t))
        ents += [("zone " + z.id, z) for z in t.zones]
        if getattr(t, "dhw", None):
            ents.append(("dhw " + t.dhw.id, t.dhw))
    for _, e in ents:
        for a in ("schema", "params", "status", "traits"):
            chk(f"{type(e).__name__}.{a}", lambda e=e, a=a: getattr(e, a))
    return errs


@native("C13")
def views_answer_after_a_mutated_packet_native(seed, n):
    """Bounded stand-in for the composite views that are not under contract: one of the repository's
    system logs (tests/tests/systems/*/packet.log) is replayed into a REAL Gateway (file transport,
    eavesdropping on or off) with one I/RP packet's payload replaced by a random payload of the same
    length that its schema regex admits, biased to sentinel bytes, inserted after the original or as
    the last packet; afterwards every public view of the gateway and of every device, system and
    zone, and both snapshots, must answer.  n histories per run (seeded)."""
    import asyncio
    import glob
    import logging
    import os
    import random
    import re
    import tempfile

    import ramses_rf
    from ramses_rf import Gateway
    from ramses_tx.ramses import CODES_SCHEMA
    line_rx = re.compile(r"^(\S+[ T]\S+) (\d{3}|\.\.\.) ( I|RP|RQ| W) (\S+) (\S+) (\S+) (\S+) ([0-9A-F]{4}) (\d{3}) ([0-9A-F]+)")
    repo = os.path.dirname(os.path.dirname(os.path.dirname(ramses_rf.__file__)))
    logs = sorted(glob.glob(repo + "/tests/tests/systems/*/packet.log"))
    rng = random.Random(seed)
    fails, seen, evals = [], set(), 0

    async def load(lines, eavesdrop):
        fd, path = tempfile.mkstemp(suffix=".log")
        os.close(fd)
        try:
            with open(path, "w") as f:
                f.write("\n".join(lines) + "\n")
            with open(path) as f:
                gwy = Gateway(None, input_file=f, config={"enable_eavesdrop": eavesdrop})
                await gwy.start()
                await gwy._protocol.wait_for_connection_lost()
                await asyncio.sleep(0.005)
        finally:
            os.unlink(path)
        return gwy

    async def main():
        nonlocal evals
        for _ in range(n):
            log = rng.choice(logs)
            lines = [ln.rstrip("\n") for ln in open(log) if line_rx.match(ln)]
            cand = [k for k, ln in enumerate(lines) if line_rx.match(ln).group(3) in (" I", "RP")]
            if not cand:
                continue
            k = rng.choice(cand)
            m = line_rx.match(lines[k])
            code, verb, pl = m.group(8), m.group(3), m.group(10)
            rx = CODES_SCHEMA.get(code, {}).get(verb)
            new = _mutated_payload(pl, rx, rng) if isinstance(rx, str) else None
            eavesdrop, insert = rng.random() < 0.5, rng.random() < 0.5
            if new is None:
                continue
            mutated = lines[k][:m.start(10)] + new + lines[k][m.end(10):]
            hist = lines[:k + 1] + [mutated] + lines[k + 1:] if insert else lines[:k] + [mutated]
            gwy = await load(hist, eavesdrop)
            evals += 1
            for name, err in _all_views(gwy):
                key = (name, err.split("(")[0], code)
                if key not in seen:
                    seen.add(key)
                    fails.append({"label": "every public view answers after any schema-conforming packet",
                                  "witness": {"seed": seed, "log": os.path.relpath(log, repo), "packet": mutated[27:], "position": "inserted" if insert else "last",
                                              "eavesdrop": eavesdrop, "view": name, "raised": err}})
            await gwy.stop()

    logging.disable(logging.CRITICAL)
    try:
        asyncio.run(main())
    finally:
        logging.disable(logging.NOTSET)
    return {"evaluations": evals, "failures": fails}
