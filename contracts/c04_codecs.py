"""C04 -- contracts of the scalar wire codecs (ramses_tx.helpers, ramses_tx.address)."""
from pyvc.api import *  # noqa: F401,F403
from pyvc.harness import harness
from ramses_tx import helpers as H


# ---- pure spec functions (the mathematical meaning of the wire format) ---------------
def s16(h):
    """Signed 16-bit value of a 4-hex word."""
    u = int(h, 16)
    return u if u < 32768 else u - 65536


def hex4_of(k):
    """4-hex word of a signed 16-bit integer (two's complement)."""
    return f"{k if k >= 0 else k + 65536:04X}"


# ---- hex_to_temp -------------------------------------------------------------------
@harness("C04", cases=[("HEX",), ("hex",)])
def hex_to_temp_contract(alphabet):
    """requires: value is a 4-hex word.  ensures: sentinels, s16/100, ValueError < -273.15."""
    h = sym_str("h", 4, alphabet)
    o = outcome(H.hex_to_temp, h)
    if h == "31FF" or h == "7FFF":
        check(o.ok and o.value is None, "sentinel N/A decodes to None")
    elif h == "7EFF":
        check(o.ok and o.value is False, "sentinel 7EFF decodes to False")
    else:
        k = s16(h)
        if k < -27315:
            check(o.raised_in(ValueError), "below absolute zero raises ValueError")
        else:
            check(o.ok, "in-range word decodes")
            check(o.value == k / 100, "value is s16(word)/100")
