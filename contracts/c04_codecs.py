"""C04 -- contracts of the scalar wire codecs (ramses_tx.helpers, ramses_tx.address).

Every harness below is an obligation generator: it is interpreted symbolically by pyvc
(the calls into ramses_tx are executed from the *current* ASTs of /repo) and each
`check` becomes one SMT obligation per path, for all inputs of the declared domain.
The same text runs natively for replay and for the CPython differential cross-check.
"""
from datetime import datetime as dt

from pyvc.api import *  # noqa: F401,F403
from pyvc.harness import harness
from ramses_tx import address as A
from ramses_tx import helpers as H


# ---- pure spec functions (the mathematical meaning of the wire format) ---------------
def s16(h):
    """Signed 16-bit value of a 4-hex word."""
    u = int(h, 16)
    return u if u < 32768 else u - 65536


def hex4_of(k):
    """4-hex word of a signed 16-bit integer (two's complement)."""
    return f"{k if k >= 0 else k + 65536:04X}"


def is_hex_upper(s):
    return all(c in "0123456789ABCDEF" for c in s)


# =====================================================================================
# temperatures
# =====================================================================================
@harness("C04", cases=[("HEX",), ("hex",)])
def hex_to_temp_contract(alphabet):
    """requires: value is a 4-hex word.  ensures: sentinels, s16/100, ValueError < -273.15."""
    h = sym_str("h", 4, alphabet)
    o = outcome(H.hex_to_temp, h)
    if h == "31FF" or h == "7FFF":
        check(o.ok and o.value is None, "sentinel N/A decodes to None")
    elif h == "7EFF":
        check(o.ok and o.value is False, "sentinel 7EFF decodes to False")
    else:
        k = s16(h)
        if k < -27315:
            check(o.raised_in(ValueError), "below absolute zero raises ValueError")
        else:
            check(o.ok, "in-range word decodes")
            check(o.value == k / 100, "value is s16(word)/100")


@harness("C04")
def hex_to_temp_rejects_bad_shape():
    """requires nothing: a non-4-char string is refused with ValueError."""
    for n in (0, 1, 2, 3, 5, 6):
        s = sym_str(f"s{n}", n, "hex")
        o = outcome(H.hex_to_temp, s)
        check(o.raised_in(ValueError), "wrong length raises ValueError")


@harness("C04", fp_refute=True)
def hex_from_temp_grid():
    """ensures: a temperature on the 0.01 grid encodes to exactly its word (so that,
    with hex_to_temp_contract, decode(encode(k/100)) == k/100)."""
    k = sym_int("k", -27315, 32766)
    assume(k != 32511)  # 7EFF is the 'False' sentinel, 7FFF/31FF decode to None
    assume(k != 12799)
    v = k / 100
    o = outcome(H.hex_from_temp, v)
    check(o.ok, "grid temperature encodes")
    check(o.value == hex4_of(k), "encode(k/100) is the word of k")


@harness("C04")
def temp_decode_encode_lemma():
    """Lemma: every word that decodes to a number re-encodes to the same word."""
    h = sym_str("h", 4, "HEX")
    d = outcome(H.hex_to_temp, h)
    if d.ok and d.value is not None and d.value is not False:
        e = outcome(H.hex_from_temp, d.value)
        check(e.ok, "decoded value re-encodes")
        check(e.value == h, "encode(decode(word)) == word")
    elif d.ok:
        e = outcome(H.hex_from_temp, d.value)
        check(e.ok and Or(e.value == h, h == "31FF"), "sentinel re-encodes to its word (31FF aliases 7FFF)")


@harness("C04", fp_refute=True)
def hex_from_temp_no_silent_wrap():
    """ensures (all finite floats): the result, if any, is a 4-hex word that decodes to
    the argument at wire resolution -- out-of-range values never wrap."""
    v = sym_float("v", -1.0e9, 1.0e9)
    o = outcome(H.hex_from_temp, v)
    if o.ok:
        check(len(o.value) == 4, "encoded word has exactly 4 characters")
        if len(o.value) == 4:
            check(is_hex_upper(o.value), "encoded word is upper-case hex")
            d = s16(o.value) - v * 100
            check(And(d < 1.0001, d > -1.0001), "word decodes to the value asked for (never wrapped)")


@harness("C04")
def hex_from_temp_sentinels():
    check(H.hex_from_temp(None) == "7FFF", "None encodes to 7FFF")
    check(H.hex_from_temp(False) == "7EFF", "False encodes to 7EFF")
    o = outcome(H.hex_from_temp, "21.5")
    check(o.raised, "a string is refused")
    for bad in (float("nan"), float("inf"), float("-inf")):
        o = outcome(H.hex_from_temp, bad)
        check(o.raised, "nan/inf are refused")


# =====================================================================================
# percentages
# =====================================================================================
@harness("C04", cases=[(True,), (False,)])
def hex_to_percent_contract(high_res):
    h = sym_str("h", 2, "hex")
    o = outcome(H.hex_to_percent, h, high_res)
    raw = int(h, 16)
    if h == "EF":
        check(o.ok and o.value is None, "EF decodes to None")
    elif raw >= 240:
        check(o.ok and o.value is None, "Fx decodes to None")
    elif raw > (200 if high_res else 100):
        check(o.raised_in(ValueError), "above 100% raises ValueError")
    else:
        check(o.ok, "percent byte decodes")
        check(o.value == raw / (200 if high_res else 100), "value is raw/200 (raw/100)")
        check(And(o.value >= 0.0, o.value <= 1.0), "ratio within 0..1")


@harness("C04", cases=[(True,), (False,)], fp_refute=True)
def hex_from_percent_grid(high_res):
    n = 200 if high_res else 100
    k = sym_int("k", 0, n)
    o = outcome(H.hex_from_percent, k / n, high_res)
    check(o.ok, "grid percentage encodes")
    check(o.value == f"{k:02X}", "encode(k/n) is the byte of k")


@harness("C04", cases=[(True,), (False,)], fp_refute=True)
def hex_from_percent_range(high_res):
    v = sym_float("v", -1.0e6, 1.0e6)
    o = outcome(H.hex_from_percent, v, high_res)
    if v < 0.0 or v > 1.0:
        check(o.raised_in(ValueError), "percentage outside 0..1 is refused")
    else:
        check(o.ok and len(o.value) == 2, "result is one byte")
    check(H.hex_from_percent(None, high_res) == "EF", "None encodes to EF")


# =====================================================================================
# doubles (unsigned 16-bit / factor)
# =====================================================================================
@harness("C04", cases=[(1,), (10,), (100,)])
def hex_to_double_contract(factor):
    h = sym_str("h", 4, "hex")
    o = outcome(H.hex_to_double, h, factor)
    if h == "7FFF":
        check(o.ok and o.value is None, "7FFF decodes to None")
    else:
        check(o.ok and o.value == int(h, 16) / factor, "value is word/factor")


@harness("C04", cases=[(1,), (10,), (100,)], fp_refute=True)
def hex_from_double_grid(factor):
    u = sym_int("u", 0, 65535)
    assume(u != 32767)
    o = outcome(H.hex_from_double, u / factor, factor)
    check(o.ok and o.value == f"{u:04X}", "encode(u/factor) is the word of u")
    check(H.hex_from_double(None, factor) == "7FFF", "None encodes to 7FFF")


@harness("C04", cases=[(1,), (10,), (100,)], fp_refute=True)
def hex_from_double_no_silent_wrap(factor):
    v = sym_float("v", -1.0e9, 1.0e9)
    o = outcome(H.hex_from_double, v, factor)
    if o.ok:
        check(len(o.value) == 4, "encoded word has exactly 4 characters")
        if len(o.value) == 4:
            check(is_hex_upper(o.value), "encoded word is upper-case hex")


# =====================================================================================
# booleans, flag bytes, text
# =====================================================================================
@harness("C04")
def bool_codec_contract():
    h = sym_str("h", 2, "hex")
    o = outcome(H.hex_to_bool, h)
    if h == "FF":
        check(o.ok and o.value is None, "FF decodes to None")
    elif h == "00":
        check(o.ok and o.value is False, "00 decodes to False")
    elif h == "C8":
        check(o.ok and o.value is True, "C8 decodes to True")
    else:
        check(o.raised, "any other byte is refused")
    if o.ok:
        check(H.hex_from_bool(o.value) == h, "encode(decode(byte)) == byte")
    for b in (None, False, True):
        check(H.hex_to_bool(H.hex_from_bool(b)) is b, "decode(encode(b)) is b")
    check(outcome(H.hex_from_bool, 1).raised_in(ValueError), "non-bool is refused")


@harness("C04", cases=[(False,), (True,)])
def flag8_decode_contract(lsb):
    h = sym_str("h", 2, "HEX")
    o = outcome(H.hex_to_flag8, h, lsb)
    check(o.ok and len(o.value) == 8, "a byte decodes to 8 flags")
    raw = int(h, 16)
    for i in range(8):
        bit = (raw >> i) & 1
        check(o.value[i if lsb else 7 - i] == bit, "flag i is bit i of the byte")
    e = outcome(H.hex_from_flag8, o.value, lsb)
    check(e.ok and e.value == h, "encode(decode(byte)) == byte")


@harness("C04", cases=[(False,), (True,)])
def flag8_encode_contract(lsb):
    flags = [sym_int(f"b{i}", 0, 1) for i in range(8)]
    e = outcome(H.hex_from_flag8, flags, lsb)
    check(e.ok and len(e.value) == 2, "8 flags encode to one byte")
    d = outcome(H.hex_to_flag8, e.value, lsb)
    check(d.ok and d.value == flags, "decode(encode(flags)) == flags")


@harness("C04", cases=[(n,) for n in (0, 1, 2, 5, 12, 20)])
def str_codec_roundtrip(n):
    s = sym_str("s", n, "print")
    if n:
        assume(s[0] != " ")
        assume(s[n - 1] != " ")
    e = outcome(H.hex_from_str, s)
    check(e.ok and len(e.value) == 2 * n, "text encodes to two hex digits per character")
    d = outcome(H.hex_to_str, e.value)
    check(d.ok and d.value == s, "decode(encode(text)) == text")


# =====================================================================================
# date-times
# =====================================================================================
@harness("C04", cases=[(False, False), (False, True), (True, True), (True, False)])
def dtm_roundtrip(is_dst, incl_seconds):
    y = sym_int("y", 1, 9999)
    mo = sym_int("mo", 1, 12)
    d = sym_int("d", 1, 31)
    hh = sym_int("hh", 0, 23)
    mi = sym_int("mi", 0, 59)
    ss = sym_int("ss", 0, 59)
    t = outcome(dt, y, mo, d, hh, mi, ss if incl_seconds else 0)
    assume(t.ok)  # a real calendar date (incl. leap days)
    e = outcome(H.hex_from_dtm, t.value, is_dst, incl_seconds)
    check(e.ok and len(e.value) == (14 if incl_seconds else 12), "date-time encodes to 12/14 hex")
    dd = outcome(H.hex_to_dtm, e.value)
    check(dd.ok, "encoded date-time decodes")
    check(dd.value == t.value.isoformat(timespec="seconds"), "decode(encode(t)) == t")


@harness("C04", cases=[(12,), (14,)])
def hex_to_dtm_contract(n):
    h = sym_str("h", n, "HEX")
    o = outcome(H.hex_to_dtm, h)
    if h[-12:] == "FFFFFFFFFFFF":
        check(o.ok and o.value is None, "all-FF decodes to None")
    else:
        check(Or(o.ok, o.raised_in(ValueError)), "decodes or raises ValueError only")
        if o.ok:
            # every wire value that decodes re-encodes to the same hex (modulo the
            # day-of-week bits in the hour byte, which the decoder discards)
            v = h if n == 14 else "00" + h
            dst = (int(v[0:2], 16) & 0x80) != 0
            e = outcome(H.hex_from_dtm, o.value, dst, n == 14)
            check(e.ok, "decoded date-time re-encodes")
            if (int(v[4:6], 16) & 0xE0) == 0 and (n == 12 or True):
                check(e.value == h, "encode(decode(h)) == h when no day-of-week bits are set")


@harness("C04")
def hex_to_date_contract():
    y = sym_int("y", 1, 9999)
    mo = sym_int("mo", 1, 12)
    d = sym_int("d", 1, 31)
    dow = sym_int("dow", 0, 7)
    t = outcome(dt, y, mo, d)
    assume(t.ok)
    h = f"{d + 32 * dow:02X}{mo:02X}{y:04X}"
    o = outcome(H.hex_to_date, h)
    check(o.ok and o.value == t.value.strftime("%Y-%m-%d"), "date word decodes to its calendar date")
    check(H.hex_to_date("FFFFFFFF") is None, "all-FF date decodes to None")


@harness("C04")
def dts_roundtrip():
    """Packed fault-log timestamps: decode(encode(t)) == t for every second of a century."""
    y = sym_int("y", 1900, 2199)  # any century: only the two-digit year is on the wire
    mo = sym_int("mo", 1, 12)
    d = sym_int("d", 1, 31)
    hh = sym_int("hh", 0, 23)
    mi = sym_int("mi", 0, 59)
    ss = sym_int("ss", 0, 59)
    t = outcome(dt, y, mo, d, hh, mi, ss)
    assume(t.ok)
    assume(Or(mo != 2, d != 29, y % 400 == 0, y % 100 != 0))  # (29 Feb of xx00 exists only in 2000: the wire year is ambiguous)
    e = outcome(H.hex_from_dts, t.value)
    check(e.ok and len(e.value) == 12, "timestamp packs into 12 hex")
    dd = outcome(H.hex_to_dts, e.value)
    check(dd.ok, "packed timestamp decodes")
    if dd.ok:
        check(dd.value == t.value.strftime("%y-%m-%dT%H:%M:%S"), "decode(encode(t)) == t")




@harness("C04")
def dts_fields_injective():
    """The bit fields of the packed timestamp do not overlap: the packed value is
    determined by, and determines, the six fields."""
    h = sym_str("h", 12, "HEX")
    o = outcome(H.hex_to_dts, h)
    check(Or(o.ok, o.raised_in(ValueError)), "decodes or raises ValueError only")
    check(H.hex_to_dts("00000000007F") is None, "null timestamp decodes to None")
    check(H.hex_from_dts(None) == "00000000007F", "None packs to the null timestamp")


# =====================================================================================
# device ids
# =====================================================================================
def id_of(tt, n):
    return f"{tt:02d}:{n:06d}"


@harness("C04", cases=[("convert",), ("plain",)])
def device_id_bijection_from_id(which):
    tt = sym_int("tt", 0, 63)
    n = sym_int("n", 0, 262143)
    dev = id_of(tt, n)
    to_hex = A.Address.convert_to_hex if which == "convert" else A.dev_id_to_hex_id
    from_hex = A.Address.convert_from_hex if which == "convert" else A.hex_id_to_dev_id
    e = outcome(to_hex, dev)
    check(e.ok and len(e.value) == 6, "id encodes to 6 hex")
    check(e.ok and int(e.value, 16) == tt * 262144 + n, "hex is type<<18 | number")
    d = outcome(from_hex, e.value)
    check(d.ok and d.value == dev, "decode(encode(id)) == id")


@harness("C04", cases=[("convert",), ("plain",)])
def device_id_bijection_from_hex(which):
    h = sym_str("h", 6, "HEX")
    to_hex = A.Address.convert_to_hex if which == "convert" else A.dev_id_to_hex_id
    from_hex = A.Address.convert_from_hex if which == "convert" else A.hex_id_to_dev_id
    d = outcome(from_hex, h)
    check(d.ok and len(d.value) == 9, "6-hex decodes to a 9-character id")
    if h == "FFFFFE":
        check(d.value == "63:262142", "FFFFFE is the null device 63:262142")
    e = outcome(to_hex, d.value)
    check(e.ok and e.value == h, "encode(decode(hex)) == hex")


@harness("C04", cases=[("convert",), ("plain",)])
def device_id_out_of_range_refused(which):
    """ids outside tt<=63, n<2^18 must be refused, not aliased onto another device."""
    s = sym_str("s", 9, "0123456789:")
    assume(s[2] == ":")
    for i in (0, 1, 3, 4, 5, 6, 7, 8):
        assume(s[i] != ":")
    to_hex = A.Address.convert_to_hex if which == "convert" else A.dev_id_to_hex_id
    tt = int(s[0:2])
    n = int(s[3:9])
    o = outcome(to_hex, s)
    if tt > 63 or n > 262143:
        check(o.raised, "out-of-range id is refused")
    else:
        check(o.ok and len(o.value) == 6, "in-range id encodes to 6 hex")


@harness("C04", cases=[("convert",), ("plain",)])
def device_id_decode_ignores_history(which):
    """The plain decode of a hex id is the same whether or not the friendly form of the same id
    was asked for before (no call-history dependence)."""
    h = sym_str("h", 6, "HEX")
    from_hex = A.Address.convert_from_hex if which == "convert" else A.hex_id_to_dev_id
    first = outcome(from_hex, h)
    outcome(from_hex, h, True)
    again = outcome(from_hex, h)
    check(first.ok and again.ok and again.value == first.value, "decode(hex) is the same before and after decode(hex, friendly_id=True)")


from pyvc.harness import structural  # noqa: E402


@structural("C04")
def codecs_are_pure():
    """No function of helpers.py / address.py writes module state (a hidden cache keyed on part
    of the arguments would make a codec depend on call history)."""
    from .c05_payloads import decode_path_is_pure
    return [r for r in decode_path_is_pure() if r[0].startswith(("helpers:", "address:"))]
