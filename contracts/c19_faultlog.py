"""C19 -- the fault-log view.

Functions under contract: FaultLog._insert_into_map, FaultLog._process_msg / handle_msg, and the views
faultlog / latest_event / latest_fault / active_faults.

Abstract state: the view is the map M: idx -> timestamp; the controller's log is the ghost L, newest
first, growing only at the top.  M is a *truthful stale view* of L when every entry of M is an
entry of L that sits at the same or a lower position than M believes (entries only ever move
down) and M is strictly newest-first.  Timestamps are integers here (the code only compares them);
the number of entries of M is bounded by 3 in these harnesses (indexes and timestamps are not
bounded): a bounded stand-in in that one dimension, stated in the evidence.
"""
from collections import OrderedDict

from pyvc.api import *  # noqa: F401,F403
from pyvc.harness import harness
from ramses_rf.system import faultlog as F

MAXI = 0x3E


def sym_view(n):
    """A view of n entries: strictly increasing indexes 0..62, strictly decreasing timestamps,
    and for each entry the (ghost) position it really has in the controller's log now."""
    ks = [sym_int(f"k{i}", 0, MAXI) for i in range(n)]
    vs = [sym_int(f"v{i}", 1, 10 ** 6) for i in range(n)]
    ps = [sym_int(f"p{i}", 0, 200) for i in range(n)]
    for i in range(n):
        assume(ps[i] >= ks[i])  # entries only move down
        if i:
            assume(And(ks[i - 1] < ks[i], vs[i - 1] > vs[i], ps[i - 1] < ps[i]))
    m = OrderedDict()
    for k, v in zip(ks, vs):
        m[k] = v
    return m, ks, vs, ps


def make_log(m):
    return new_object(F.FaultLog, _map=m, _log={}, _MAX_LOG_IDX=MAXI)


def truthful(ks, vs, ps, idx, dtm):
    """dtm is what the controller's log holds at position idx now."""
    r = True
    for v, p in zip(vs, ps):
        r = And(r, Ite(p < idx, v > dtm, Ite(p > idx, v < dtm, v == dtm)))
    return r


def strictly_newest_first(d):
    items = list(d.items())
    r = True
    for (k1, v1), (k2, v2) in zip(items, items[1:]):
        r = And(r, k1 < k2, v1 > v2)
    return r


@harness("C19", cases=[(n,) for n in (0, 1, 2, 3)])
def insert_null_entry(n):
    """A null entry at idx: there is nothing at or below idx; the entries above are kept."""
    m, ks, vs, ps = sym_view(n)
    idx = sym_int("idx", 0, MAXI)
    fl = make_log(m)
    o = outcome(fl._insert_into_map, idx, None)
    check(o.ok, "_insert_into_map does not raise")
    r = o.value
    for k, v in zip(ks, vs):
        check(Implies(k < idx, And(k in r, r.get(k) == v)), "entries above a null entry are kept")
        check(Implies(k >= idx, Not(k in r)), "nothing remains at or below a null entry")
    check(len(r) <= n, "a null entry adds nothing")


@harness("C19", cases=[(n,) for n in (0, 1, 2, 3)], budget_s=900)
def insert_entry(n):
    """A truthful entry (idx, dtm) into a truthful stale view: the entry is where it was reported,
    the view stays strictly newest-first (so no entry at two positions), shows nothing that
    was not in the view or just reported, and stays within the log's 63 positions."""
    m, ks, vs, ps = sym_view(n)
    idx = sym_int("idx", 0, MAXI)
    dtm = sym_int("dtm", 1, 10 ** 6)
    assume(truthful(ks, vs, ps, idx, dtm))
    fl = make_log(m)
    o = outcome(fl._insert_into_map, idx, dtm)
    check(o.ok, "_insert_into_map does not raise")
    r = o.value
    check(And(idx in r, r.get(idx) == dtm), "the reported entry is at the reported position")
    check(strictly_newest_first(OrderedDict(sorted(r.items(), key=lambda kv: kv[0]))), "the view is strictly newest-first: no entry at two positions")
    for k, v in r.items():
        check(And(k >= 0, k <= MAXI), "positions stay within 0..62")
        check(Or(v == dtm, *[v == x for x in vs]), "the view shows only entries it held or was just told")
        # inductive part: the result is again a truthful stale view of the controller's log
        real = [Implies(v == x, k <= p) for x, p in zip(vs, ps)]
        check(And(Implies(v == dtm, k <= idx), *real), "no entry is believed to be lower in the log than it really is")


def kf_overshift(inp):
    """Known-finding class: the view holds an entry older than the reported one at or above the
    reported position (k <= idx, v < dtm).  Only then does _insert_into_map shift the older
    entries down (by 1, or by idx + 1) -- a guess: entries that did not move that far end up
    believed lower than they are."""
    r = False
    for i in range(3):
        k, v = inp.get(f"k{i}"), inp.get(f"v{i}")
        if k is not None:
            r = Or(r, And(v < inp["dtm"], k <= inp["idx"]))
    return r


@harness("C19", cases=[(n,) for n in (1, 2, 3)])
def push_down(n):
    """An unsolicited announcement of a new entry (idx 0, newer than everything known) pushes the
    known entries down by one (those that stay within the view's 63 positions)."""
    m, ks, vs, ps = sym_view(n)
    dtm = sym_int("dtm", 1, 10 ** 6)
    for k, v, p in zip(ks, vs, ps):
        assume(And(p == k + 1, v < dtm))  # the view was exact; the log has just grown by one at the top
    fl = make_log(m)
    o = outcome(fl._insert_into_map, 0, dtm)
    check(o.ok, "_insert_into_map does not raise")
    r = o.value
    check(r.get(0) == dtm, "the announced entry is at the top")
    for k, v in zip(ks, vs):
        check(Implies(k + 1 <= MAXI, r.get(k + 1) == v), "every known entry has moved down by one")
    check(len(r) <= n + 1, "nothing else appears")


def kf_no_top_entry(inp):
    """Known-finding class: the view holds nothing at position 0."""
    return inp["k0"] != 0


@harness("C19", cases=[(n, i) for n in (1, 2, 3) for i in range(0, n + 1)])
def read_through_step(n, idx):
    """Read-through, one step: the view is exact over positions 0..idx-1, whatever is believed
    below; after the truthful reply for position idx it is exact over 0..idx."""
    m, ks, vs, ps = sym_view(n)
    dtm = sym_int("dtm", 1, 10 ** 6)
    for i in range(idx):
        assume(And(ks[i] == i, ps[i] == i))
    assume(truthful(ks, vs, ps, idx, dtm))
    fl = make_log(m)
    o = outcome(fl._insert_into_map, idx, dtm)
    check(o.ok, "_insert_into_map does not raise")
    r = o.value
    for i in range(idx):
        check(r.get(i) == vs[i], "positions already read stay exact")
    check(r.get(idx) == dtm, "the position just read is exact")


@harness("C19", cases=[(n, i) for n in (1, 2, 3) for i in range(0, n + 1)])
def read_through_after_lost_announcements(n, idx):
    """Read-through of a view that WAS exact (n contiguous entries from the top) when s >= 0 announcements
    were lost: the invariant of the read-through is "exact over 0..idx-1, and below that the old entries, in
    order, each believed exactly s' >= 0 positions higher than it is".  The truthful reply for position idx
    re-establishes it for idx + 1 (s' drops by one when it was positive): so the read-through ends with
    the controller's log, nothing at two positions and nothing lost (but what falls off position 62)."""
    m, ks, vs, ps = sym_view(n)
    dtm = sym_int("dtm", 1, 10 ** 6)
    s = sym_int("announcements_lost", 0, 5)
    for i in range(n):
        assume(And(ks[i] == i, ps[i] == (i if i < idx else i + s)))
    assume(truthful(ks, vs, ps, idx, dtm))
    fl = make_log(m)
    o = outcome(fl._insert_into_map, idx, dtm)
    check(o.ok, "_insert_into_map does not raise")
    r = o.value
    for i in range(idx):
        check(r.get(i) == vs[i], "positions already read stay exact")
    check(r.get(idx) == dtm, "the position just read is exact")
    if s == 0:
        cover("nothing was lost")
        for i in range(idx, n):
            check(r.get(i) == vs[i], "a view that is still exact is left as it is")
        check(len(r) == max(n, idx + 1), "and nothing is added to it")
    else:
        cover("announcements were lost")
        for i in range(idx, n):
            check(r.get(i + 1) == vs[i], "the entries below the position just read move down by exactly one (they are s - 1 too high now)")
        check(len(r) == n + 1, "no entry is lost, none appears twice")


# ---- views never raise ------------------------------------------------------------------------------------
class FakeEntry:
    def __init__(self, ts, state):
        self.timestamp = ts
        self.fault_state = state

    def _as_tuple(self):
        return ("t", "c", "d", "i")

    def __lt__(self, other):
        return self.timestamp < other.timestamp


@harness("C19", cases=[(n,) for n in (0, 1, 2)])
def views_never_raise(n):
    """faultlog / latest_event / latest_fault / active_faults do not raise when every timestamp of
    the map has its entry in the log (the invariant _process_msg keeps)."""
    from ramses_tx.const import FaultState
    m, ks, vs, ps = sym_view(n)
    log = {}
    for i, v in enumerate(vs):
        log[v] = FakeEntry(v, sym_choice(f"state{i}", [FaultState.FAULT, FaultState.RESTORE]))
    fl = new_object(F.FaultLog, _map=m, _log=log)
    for view in ("faultlog", "latest_event", "latest_fault", "active_faults"):
        o = outcome(getattr, fl, view)
        check(o.ok, "reading the fault-log view does not raise")
    f = outcome(getattr, fl, "faultlog")
    if f.ok:
        check(len(f.value) == n, "the view shows one entry per known position")


# ---- _process_msg / handle_msg ---------------------------------------------------------------------------------
class FakeMsg:
    def __init__(self, verb, idx_hex, entry_ts):
        self.code = "0418"
        self.verb = verb
        self.payload = {"log_idx": idx_hex, "log_entry": None if entry_ts is None else ("some", "entry")}
        self._ghost_ts = entry_ts


def entry_from_msg_stub(cls, msg):
    """Contract of FaultLogEntry.from_msg: the entry carries the message's timestamp."""
    return FakeEntry(msg._ghost_ts, "fault")


@harness("C19", cases=[(n, kind) for n in (0, 1, 2) for kind in ("entry", "null")],
         stubs={F.FaultLogEntry.from_msg.__func__: entry_from_msg_stub})
def handle_msg_keeps_the_view_readable(n, kind):
    """handle_msg for any I / RP 0418 message on any view whose timestamps all have their entry in
    the log: it does not raise, and afterwards every timestamp of the map still has its entry
    (so reading the view never raises) and no entry is at two positions."""
    m, ks, vs, ps = sym_view(n)
    log = {}
    for v in vs:
        log[v] = FakeEntry(v, "fault")
    fl = new_object(F.FaultLog, _map=m, _log=log, _MAX_LOG_IDX=MAXI, _is_current=True, _is_getting=sym_bool("is_getting"), _log_done=None)
    idx = sym_int("idx", 0, MAXI)
    dtm = sym_int("dtm", 1, 10 ** 6)
    assume(truthful(ks, vs, ps, idx, dtm))
    verb = sym_choice("verb", [" I", "RP"])
    msg = FakeMsg(verb, f"{idx:02X}", dtm if kind == "entry" else None)
    o = outcome(fl.handle_msg, msg)
    check(o.ok, "handle_msg does not raise")
    for k, v in fl._map.items():
        check(v in fl._log, "every timestamp in the map has its entry in the log")
    f = outcome(getattr, fl, "faultlog")
    check(f.ok, "the view can be read after any message")
    if kind == "entry" and not (verb == "RP" and False):
        check(fl._map.get(idx) == dtm, "the reported entry is shown at the reported position")
    if verb == " I":
        check(fl._is_current is False, "an unsolicited announcement marks the view as possibly stale")


# ---- the read-through loop --------------------------------------------------------------------------------------
NULL_PAYLOAD = "000000B0000000000000000000007FFFFF7000000000"


class FakeLogPkt:
    def __init__(self, idx, null):
        self.payload = NULL_PAYLOAD if null else f"0040{idx:02X}B0040004000000CB955F71FFFFFF70001283B3"
        self._ghost_idx = idx
        self._ghost_null = null


class FakeLogGwy:
    def __init__(self, depth):
        self.depth = depth

    async def async_send_cmd(self, cmd, **kwargs):
        ghost("requests").append(cmd)
        return FakeLogPkt(cmd, cmd >= self.depth)


def log_entry_cmd_stub(cls, ctl_id, log_idx):
    return log_idx  # (the command is identified by the position it asks for)


def process_msg_stub(self, msg):
    ghost("processed").append(msg)


def hack_pkt_idx_stub(self, pkt, cmd):
    return ("null entry", cmd)


def message_stub(pkt):
    return ("entry", pkt._ghost_idx)


@harness("C19", cases=[(d,) for d in (0, 1, 3, 6, 9)],
         stubs={F.FaultLog._process_msg: process_msg_stub, F.FaultLog._hack_pkt_idx: hack_pkt_idx_stub, F.Command.get_system_log_entry.__func__: log_entry_cmd_stub,
                F.Message: message_stub})
def read_through_asks_the_controller(depth):
    """get_faultlog reads the log from the top, whatever it believed before (also when it believes
    it is current): it asks for position 0, 1, ... until the first null entry (or its limit),
    and feeds every reply -- the null one too -- to _process_msg, in order."""
    fl = new_object(F.FaultLog, id="01:145038", _gwy=FakeLogGwy(depth), _map={}, _log={}, _is_current=sym_bool("believed_current"),
                    _is_getting=False, _log_done=None)
    o = outcome(fl.get_faultlog)
    check(o.ok, "get_faultlog does not raise")
    want = min(depth + 1, F.DEFAULT_GET_LIMIT)
    check(ghost("requests") == list(range(want)), "positions 0 .. first null entry (or the limit) are requested, in order")
    check(len(ghost("processed")) == want, "every reply is processed, the null entry too")
    check(fl._is_getting is False, "the read-through is over")
