"""C06 -- request / reply correlation: the echo and the proper reply are recognised, near misses are not.

Functions under contract (real ASTs): frame.pkt_header, Frame._hdr/_ctx/_idx, frame._pkt_idx,
Frame._has_array/_has_ctl, Command.tx_header/rx_header, protocol_fsm.IsInIdle.cmd_sent,
WantEcho.pkt_rcvd, WantRply.pkt_rcvd.  ProtocolContext.set_state is the call-site contract
`FakeContext.set_state` (it records the transition; the real one is covered under C08).
"""
import re

from pyvc import regexc
from pyvc.api import *  # noqa: F401,F403
from pyvc.harness import harness
from ramses_tx import packet as _packet
from ramses_tx import protocol_fsm as fsm
from ramses_tx.command import CODE_API_MAP, Command
from ramses_tx.packet import Packet
from ramses_tx.ramses import CODE_IDX_ARE_NONE, CODES_SCHEMA, CODES_WITH_ARRAYS

from .c02_frames import pkt_lifespan_callsite, sym_dev

HGI = "18:000730"
NON = "--:------"
DTM = "2023-11-30T13:15:00.123456"
HEXA = "0123456789ABCDEF"
NULL_0418 = "000000B0000000000000000000007FFFFF7000000000"


# ---- the request/reply domain: (code, verb, payload bytes) read from the tree's schema --------
def _lengths(code, verb):
    rx = CODES_SCHEMA.get(code, {}).get(verb)
    if rx is None:
        return []
    ls = regexc.accepted_lengths(rx, re.compile(rx).flags, HEXA, 96)
    return sorted(n // 2 for n in ls if n % 2 == 0 and 2 <= n <= 96)


def _pick(ls, k=2):
    """At most k lengths: the shortest and the longest (the rest: thorough tier)."""
    return sorted(set(ls[:1] + ls[-1:])) if k == 2 else ls


API_CODES = sorted({k.split("|")[1] for k in CODE_API_MAP} | {"0005", "000C"})  # + the complex-context codes
REQUESTS = [(str(code), verb) for code in CODES_SCHEMA for verb in ("RQ", " W") if _lengths(code, verb)]
CASES = [(code, verb, n) for code, verb in REQUESTS for n in _lengths(code, verb)]
REPLY_VERB = {"RQ": "RP", " W": " I"}


def _quick(code, verb, n, *rest):
    ls = _lengths(code, verb)
    return code in API_CODES and n == ls[0]


# ---- spec: the context a frame carries (from the property statement) ---------------------------
def same_context(code, rq, rp):
    """The reply payload carries the same index/context as the request payload."""
    if code in ("0005", "000C"):
        return rq[:4] == rp[:4]
    if code == "0404":  # the hot-water schedule is identified by its type (23), not by an index
        return And(Or(And(rq[2:4] == "23", rp[2:4] == "23"), And(rq[2:4] != "23", rp[2:4] != "23", rq[:2] == rp[:2])),
                   rq[10:12] == rp[10:12])
    if code in ("0418", "3220"):
        return rq[4:6] == rp[4:6]
    if code in CODE_IDX_ARE_NONE:
        return True  # these codes never carry an index
    return rq[:2] == rp[:2]


class FakeProtocol:
    def __init__(self, hgi_id):
        self.hgi_id = hgi_id


class FakeContext:
    """What the state classes see of ProtocolContext: _state, _protocol.hgi_id, set_state()."""

    def __init__(self, hgi_id):
        self._protocol = FakeProtocol(hgi_id)
        self.calls = []
        self._state = None
        self._state = fsm.IsInIdle(self)

    def set_state(self, state_class, expired=False, timed_out=False, exception=None, result=None):
        self.calls.append((state_class, result))
        self._state = state_class(self)


def sym_payload(name, code, verb, n):
    p = sym_str(name, 2 * n, "HEX")
    rx = CODES_SCHEMA.get(code, {}).get(verb)
    if rx is not None:
        assume(re.compile(rx).match(p) is not None)
    return p


def make_cmd(code, verb, n, src_kind):
    src = HGI if src_kind == "hgi" else sym_dev("src")
    dst = sym_dev("dst")
    assume(dst != src)
    assume(And(src != "63:262142", dst != "63:262142"))
    payload = sym_payload("rq", code, verb, n)
    frame = f"{verb} --- {src} {dst} {NON} {code} {n:03d} {payload}"
    return src, dst, payload, frame


SUBST = {_packet.pkt_lifespan: pkt_lifespan_callsite}


@harness("C06", cases=[c + (k,) for c in CASES for k in ("hgi", "dev")], quick=_quick, subst=SUBST)
def echo_is_recognised(code, verb, n, src_kind):
    """L-echo: the echo of a sent command -- the same frame, with the gateway's real id in
    place of the 18:000730 placeholder -- is taken for its echo by WantEcho.pkt_rcvd."""
    src, dst, payload, frame = make_cmd(code, verb, n, src_kind)
    g = "18:" + sym_str("gwy_n", 6, "digit")
    c = outcome(Command, frame)
    assume(c.ok)
    cmd = c.value
    assume(outcome(getattr, cmd, "tx_header").ok)  # else the command cannot be sent at all (send_cmd raises)
    ctx = FakeContext(g)
    ctx._state.cmd_sent(cmd, is_retry=False)
    check(isinstance(ctx._state, fsm.WantEcho), "after cmd_sent the FSM waits for the echo")
    esrc = g if src_kind == "hgi" else src
    assume(esrc != dst)
    eframe = f"{verb} --- {esrc} {dst} {NON} {code} {n:03d} {payload}"
    e = outcome(Packet.from_port, DTM, "000 " + eframe)
    assume(e.ok)
    ncalls = len(ctx.calls)
    r = outcome(ctx._state.pkt_rcvd, e.value)
    check(r.ok, "pkt_rcvd does not raise on the echo")
    check(len(ctx.calls) == ncalls + 1, "the echo causes exactly one transition")
    if len(ctx.calls) == ncalls + 1:
        st, res = ctx.calls[-1]
        if cmd.rx_header:
            check(st is fsm.WantRply, "echo of a command that expects a reply: now wait for the reply")
        else:
            check(And(st is fsm.IsInIdle, res is e.value), "echo of a command with no reply: the send completes with the echo")


def _reply_lengths(code, verb):
    rverb = REPLY_VERB[verb]
    rls = _lengths(code, rverb)
    if rverb == " I" and code in CODES_WITH_ARRAYS:
        rls = [x for x in rls if x == CODES_WITH_ARRAYS[code][0]]  # the reply to a write is one element, not an array
    return rls


# ---- known-finding input classes (predicates over the named inputs of a harness run) ----------
def kf_dts_party(inp):
    """A 12:/22: (programmer-thermostat) device is the requester or the responder: Frame._has_ctl
    looks at the *destination* type only, so request and reply disagree on the context."""
    s, d = inp.get("src_t"), inp.get("dst_t")
    return Or(d == "12", d == "22", False if s is None else Or(s == "12", s == "22"))


RCASES = [c for c in CASES if _reply_lengths(c[0], c[1])]


@harness("C06", cases=[c + (k,) for c in RCASES for k in ("hgi", "dev")], quick=_quick, subst=SUBST)
def reply_is_recognised(code, verb, n, src_kind):
    """L-reply: a packet with the same code, the replying verb, from the addressed device to the
    sender (or to the gateway's real id), carrying the same context, has the header the
    command expects (rx_header) and resolves WantRply.pkt_rcvd with that packet."""
    rverb = REPLY_VERB[verb]
    rls = _reply_lengths(code, verb)
    src, dst, payload, frame = make_cmd(code, verb, n, src_kind)
    g = "18:" + sym_str("gwy_n", 6, "digit")
    c = outcome(Command, frame)
    assume(c.ok)
    cmd = c.value
    assume(outcome(getattr, cmd, "tx_header").ok)  # else the command cannot be sent at all (send_cmd raises)
    esrc = g if src_kind == "hgi" else src
    assume(esrc != dst)
    m = sym_choice("reply_len", sorted(set(rls[:2] + rls[-1:])))
    rp = sym_payload("rp", code, rverb, m)
    assume(same_context(code, payload, rp))
    rframe = f"{rverb} --- {dst} {esrc} {NON} {code} {m:03d} {rp}"
    r = outcome(Packet.from_port, DTM, "000 " + rframe)
    assume(r.ok)
    reply = r.value
    hdr = outcome(lambda: reply._hdr)
    assume(hdr.ok)  # a reply the decoder itself rejects is not "a proper reply"
    check(cmd.rx_header is not None, "a request/write to another device expects a reply")
    null_entry = code == "0418" and rp == NULL_0418
    if not null_entry:
        check(hdr.value == cmd.rx_header, "the proper reply has the header the command expects")
    # the reply may overtake the echo: WantEcho accepts it too
    early = FakeContext(g)
    early._state.cmd_sent(cmd, is_retry=False)
    if not null_entry:
        n0 = len(early.calls)
        er = outcome(early._state.pkt_rcvd, reply)
        check(er.ok and len(early.calls) == n0 + 1 and early.calls[-1][0] is fsm.IsInIdle and early.calls[-1][1] is reply,
              "the proper reply arriving before the echo completes the send with that packet")
    # through the FSM: echo first, then the reply
    ctx = FakeContext(g)
    ctx._state.cmd_sent(cmd, is_retry=False)
    e = outcome(Packet.from_port, DTM, f"000 {verb} --- {esrc} {dst} {NON} {code} {n:03d} {payload}")
    assume(e.ok)
    ctx._state.pkt_rcvd(e.value)
    if isinstance(ctx._state, fsm.WantRply):
        ncalls = len(ctx.calls)
        rr = outcome(ctx._state.pkt_rcvd, reply)
        check(rr.ok, "pkt_rcvd does not raise on the reply")
        check(len(ctx.calls) == ncalls + 1 and ctx.calls[-1][0] is fsm.IsInIdle and ctx.calls[-1][1] is reply,
              "the proper reply completes the send with that packet")


def _other_code(code):
    i = API_CODES.index(code) if code in API_CODES else 0
    return API_CODES[(i + 1) % len(API_CODES)]


def _fsm_pair(cmd, g, verb, esrc, dst, code, n, payload):
    """Two contexts holding the sent command: one awaiting the echo, one awaiting the reply."""
    ctx = FakeContext(g)
    ctx._state.cmd_sent(cmd, is_retry=False)
    ctx2 = FakeContext(g)
    ctx2._state.cmd_sent(cmd, is_retry=False)
    e = outcome(Packet.from_port, DTM, f"000 {verb} --- {esrc} {dst} {NON} {code} {n:03d} {payload}")
    assume(e.ok)
    ctx2._state.pkt_rcvd(e.value)
    return ctx, ctx2


def _not_taken(ctx, ctx2, p, what):
    n0 = len(ctx.calls)
    r1 = outcome(ctx._state.pkt_rcvd, p)
    check(r1.ok and len(ctx.calls) == n0, f"a packet that differs in {what} is not taken while the echo is awaited")
    if isinstance(ctx2._state, fsm.WantRply):
        n1 = len(ctx2.calls)
        r2 = outcome(ctx2._state.pkt_rcvd, p)
        check(r2.ok and len(ctx2.calls) == n1, f"a packet that differs in {what} is not taken while the reply is awaited")


DIMS = ("code", "verb", "device", "context")


def _quick_miss(code, verb, n, src_kind, dim):
    return code in API_CODES and n == _lengths(code, verb)[0] and src_kind == "hgi"


@harness("C06", cases=[c + (k, d) for c in CASES for k in ("hgi", "dev") for d in DIMS], quick=_quick_miss, subst=SUBST,
         vacuous_ok=lambda code, verb, n, k, dim: dim == "context")
def near_miss_is_not_taken(code, verb, n, src_kind, dim):
    """L-miss: a packet that is the echo / the proper reply except for exactly one of code, verb,
    responding (or addressed) device, context is taken neither for the echo nor for the
    reply (the coded exception: a null 0418 entry answers any log index)."""
    src, dst, payload, frame = make_cmd(code, verb, n, src_kind)
    assume(dst != HGI)  # commands are not addressed to the placeholder id
    g = "18:" + sym_str("gwy_n", 6, "digit")
    c = outcome(Command, frame)
    assume(c.ok)
    cmd = c.value
    assume(outcome(getattr, cmd, "tx_header").ok)
    esrc = g if src_kind == "hgi" else src
    assume(And(esrc != dst, g != dst))
    ctx, ctx2 = _fsm_pair(cmd, g, verb, esrc, dst, code, n, payload)
    rverb = REPLY_VERB[verb]
    like = sym_choice("like", ["echo", "reply"]) if _reply_lengths(code, verb) else "echo"
    # start from the echo / the proper reply ...
    if like == "echo":
        pverb, psrc, pdst, pcode, m = verb, esrc, dst, code, n
        pp = sym_payload("pp", code, verb, n)
    else:
        pverb, psrc, pdst, pcode = rverb, dst, esrc, code
        m = sym_choice("reply_len", sorted(set(_reply_lengths(code, verb)[:2] + _reply_lengths(code, verb)[-1:])))
        pp = sym_payload("pp", code, rverb, m)
    same = same_context(code, payload, pp)
    # ... and change exactly one thing
    if dim == "code":
        assume(same)
        pcode = _other_code(code)
    elif dim == "verb":
        assume(same)
        pverb = sym_choice("p_verb", [v for v in ("RQ", "RP", " I", " W") if v != pverb])
        assume(pverb != (rverb if like == "echo" else verb))  # (that would be the reply / the echo)
    elif dim == "device":
        assume(same)
        other = sym_dev("other")
        assume(And(other != dst, other != esrc, other != "63:262142", other != HGI, other != g))
        if like == "echo":
            pdst = other
        else:
            psrc = other
    else:
        if code in CODE_IDX_ARE_NONE:
            return check(True, "codes without an index have no context to differ in")
        assume(Not(same))
        if code == "0418":
            assume(pp != NULL_0418)
    pk = outcome(Packet.from_port, DTM, f"000 {pverb} --- {psrc} {pdst} {NON} {pcode} {m:03d} {pp}")
    assume(pk.ok)
    assume(outcome(getattr, pk.value, "_hdr").ok)
    _not_taken(ctx, ctx2, pk.value, dim)
