"""C01 -- reception is total: every line is decoded or rejected with PacketInvalid / ValueError;
a rejected line never stops the stream; serial frames depend only on the bytes.

Split of "for all strings": a line on which COMMAND_REGEX fails is handled as an *unbounded*
string (sym_text: only total library operations are defined on it); a line on which it matches
has one of finitely many lengths -- accepted_lengths(COMMAND_REGEX), computed exactly from the
regex's NFA on every run and checked against the enumerated cases -- and is handled as a shaped
string of each such length, all characters symbolic.
"""
import re
from datetime import datetime as dt

from pyvc import regexc
from pyvc.api import *  # noqa: F401,F403
from pyvc.harness import harness
from ramses_tx import exceptions as exc
from ramses_tx import packet as _packet
from ramses_tx import transport as _transport
from ramses_tx.const import COMMAND_REGEX
from ramses_tx.frame import Frame
from ramses_tx.packet import Packet

from .c02_frames import FakeLog, pkt_read_callsite

ALLOWED = (exc.PacketInvalid, ValueError)
DTM = "2023-11-30T13:15:00.123456"
_REPR_CHARS = "".join(map(chr, range(128))) + "٣é"
FRAME_LENGTHS = sorted(regexc.accepted_lengths(COMMAND_REGEX.pattern, COMMAND_REGEX.flags, _REPR_CHARS, 400))
SHAPED = [(46 + 2 * n + nl, n, nl) for n in range(1, 49) for nl in (0, 1)]  # (length, payload bytes, trailing newline)


def pkt_lifespan_may_raise(pkt):
    """Call-site contract of pkt_lifespan for exception analysis: returns something, or raises
    AssertionError / ValueError (discharged for the real function by pkt_lifespan_raises)."""
    k = sym_choice("lifespan_outcome", ["ok", "assert", "value"])
    if k == "assert":
        raise AssertionError("array checks")
    if k == "value":
        raise ValueError("3220 data-id")
    return opaque("lifespan")


@harness("C01")
def shaped_cases_cover_the_regex():
    """Handover lemma: a string accepted by COMMAND_REGEX has one of the enumerated lengths."""
    check(FRAME_LENGTHS == sorted(x[0] for x in SHAPED), "accepted_lengths(COMMAND_REGEX) == the enumerated shaped lengths")
    check(len(FRAME_LENGTHS) == 96, "48 payload lengths, with and without a trailing newline")


@harness("C01", cases=[(k,) for k in ("from_file", "from_port", "from_dict")])
def line_not_matching_is_rejected(kind):
    """Any text at all on which the frame regex fails (or that is empty, or whose timestamp
    does not parse) is refused with PacketInvalid or ValueError -- never anything else."""
    line = sym_text("line")
    if kind == "from_port":
        o = outcome(Packet.from_port, dt(2023, 11, 30, 13, 15), line)
    elif kind == "from_file":
        o = outcome(Packet.from_file, sym_text("dtm"), line)
    else:
        o = outcome(Packet.from_dict, sym_text("dtm"), line)
    check(o.raised, "a line that is not a frame is not accepted")
    check(o.raised_in(ALLOWED), "a line that is not a frame is refused with PacketInvalid or ValueError only")


@harness("C01", cases=SHAPED, quick=lambda ln, n, nl: n in (1, 3, 48),
         subst={_packet.pkt_lifespan: pkt_lifespan_may_raise})
def line_matching_is_decoded_or_rejected(ln, n, nl):
    """Any string of a frame-regex length -- every character symbolic, any 4-character RSSI
    prefix, with or without evofw3 error text / comment -- gives a Packet or PacketInvalid /
    ValueError."""
    s = sym_str("s", ln)
    assume(COMMAND_REGEX.match(s) is not None)
    prefix = sym_str("rssi", 4)
    err = sym_choice("err", ["", "some error"])
    com = sym_choice("com", ["", "a comment"])
    o = outcome(Packet, dt(2023, 11, 30, 13, 15), prefix + s, err_msg=err, comment=com)
    check(Or(o.ok, o.raised_in(ALLOWED)), "a frame-shaped line gives a Packet, PacketInvalid or ValueError")
    if o.ok:
        cover("accepted")
        check(And(err == "", nl == 0), "an accepted packet has no error text and no trailing newline")


# ---- pkt_lifespan: which exceptions can leave it (per code class) ------------------------------
LIFESPAN_CODES = ["0005", "000C", "0006", "0404", "000A", "10E0", "1F09", "1FC9", "2309", "30C9", "3220", "other"]


@harness("C01", cases=[(c, n) for c in LIFESPAN_CODES for n in (1, 2, 3, 6, 12)])
def pkt_lifespan_raises(codeclass, n):
    """raises(pkt_lifespan) is within {AssertionError, ValueError} for every frame."""
    verb = sym_choice("verb", [" I", "RP", "RQ", " W"])
    a = sym_str("a", 29)
    if codeclass == "other":
        code = sym_str("code", 4, "HEX")
        for c in LIFESPAN_CODES[:-1]:
            assume(code != c)
    else:
        code = codeclass
    payload = sym_str("payload", 2 * n, "HEX")
    f = outcome(Frame, f"{verb} --- {a} {code} {n:03d} {payload}")
    assume(f.ok)
    o = outcome(_packet.pkt_lifespan, f.value)
    check(Or(o.ok, o.raised_in((AssertionError, ValueError))), "pkt_lifespan returns, or raises AssertionError / ValueError only")


# ---- the stream goes on ---------------------------------------------------------------------------
class Marker:
    """Stands for the Packet a line decoded to (ghost: remembers which line)."""

    def __init__(self, line):
        self.line = line


def from_file_contract(cls, dtm_str, pkt_line):
    """Call-site contract of Packet.from_file (discharged above for all lines): a packet, or
    PacketInvalid, or ValueError."""
    k = sym_choice("line_outcome", ["packet", "invalid", "value"])
    if k == "invalid":
        raise exc.PacketInvalid("bad")
    if k == "value":
        raise ValueError("null frame")
    m = Marker(pkt_line)
    ghost("decoded").append(m)
    return m


def make_transport(source):
    return new_object(_transport.FileTransport, _pkt_source=source, _reading=True, _closing=False, _ghost_delivered=[])


@harness("C01", cases=[(k,) for k in ("log", "dict")], stubs={_transport._ReadTransport._pkt_read: pkt_read_callsite},
         subst={Packet.from_file.__func__: from_file_contract})
def rejected_lines_do_not_stop_the_reader(kind):
    """FileTransport._reader / _frame_read over three lines, each of which -- by the contract of
    Packet.from_file -- decodes or is rejected with PacketInvalid / ValueError: the reader
    never raises, and exactly the decoded lines are delivered, in order (so a rejected line,
    a blank line or a comment line never costs a following line)."""
    texts = [sym_text(f"line{i}") for i in range(3)]
    if kind == "log":
        tp = make_transport(FakeLog(texts))
    else:
        tp = make_transport({f"2023-11-30T13:15:0{i}.000000": t for i, t in enumerate(texts)})
    r = outcome(tp._reader)
    check(r.ok, "the reader does not raise, whatever the lines are")
    got = tp._ghost_delivered
    note(got)
    want = ghost("decoded")
    check(len(got) == len(want), "exactly the lines that decoded are delivered")
    for a, b in zip(got, want):
        check(a is b, "the decoded lines are delivered in their order, each once")


@harness("C01", stubs={_transport._ReadTransport._pkt_read: pkt_read_callsite})
def good_lines_around_a_bad_one():
    """Concrete instance through the real Packet.from_file: good / arbitrary text / good."""
    bad = sym_text("bad")
    tp = make_transport(FakeLog([f"{DTM} {GOOD1}\n", bad, f"2023-11-30T13:15:02.000000 {GOOD2}\n"]))
    r = outcome(tp._reader)
    check(r.ok, "the log reader does not raise, whatever the middle line is")
    got = tp._ghost_delivered
    check(len(got) == 2, "both good lines are delivered (an unmatched middle line delivers nothing)")
    if len(got) == 2:
        check(And(str(got[0]) == GOOD1[4:], str(got[1]) == GOOD2[4:]), "the good lines are delivered in order, around the bad one")


GOOD1 = "045  I --- 01:145038 --:------ 01:145038 1F09 003 FF073F"
GOOD2 = "045 RQ --- 18:000730 01:145038 --:------ 000A 002 0800"


# ---- serial segmentation: frames depend only on the bytes (bounded, native, exhaustive) -------------
from pyvc.harness import native  # noqa: E402


class _FakeSerial:
    def __init__(self, chunks):
        self.chunks = list(chunks)

    def read(self, n):
        return self.chunks.pop(0) if self.chunks else b""


def _feed(chunks):
    """Run the real PortTransport._read_ready once per chunk; -> (frames handed on, bytes left over)."""
    got = []
    tp = new_object(_transport.PortTransport, _serial=_FakeSerial(chunks), _recv_buffer=b"", _max_read_size=1024,
                    _closing=False)
    tp._frame_read = lambda dtm, frame: got.append(frame)
    for _ in range(len(chunks)):
        tp._read_ready()
    return got, tp._recv_buffer


@native("C01")
def serial_reads_can_be_split_anywhere(seed, n):
    """L-seg, bounded: for every byte stream of length <= 7 over {CR, LF, 'a'} (8 in the thorough
    tier) and every way of cutting it into reads (also with empty reads in between), the real
    _read_ready hands on the same frames and keeps the same remainder as for a single read."""
    import itertools
    import logging
    logging.disable(logging.CRITICAL)
    maxlen = 7 if n <= 200 else 8
    fails, evals = [], 0
    try:
        for ln in range(0, maxlen + 1):
            for tup in itertools.product(b"\r\na", repeat=ln):
                s = bytes(tup)
                ref = _feed([s]) if s else ([], b"")
                for cuts in range(1 << max(ln - 1, 0)):
                    chunks, start = [], 0
                    for i in range(1, ln):
                        if cuts >> (i - 1) & 1:
                            chunks.append(s[start:i])
                            start = i
                    chunks.append(s[start:])
                    if cuts % 5 == 0:
                        chunks.insert(len(chunks) // 2, b"")  # an empty read in between
                    evals += 1
                    if _feed(chunks) != ref:
                        fails.append({"label": "frames and remainder are independent of how the stream is cut into reads",
                                      "witness": {"seed": seed, "stream": repr(s), "reads": repr(chunks), "got": repr(_feed(chunks)), "single_read": repr(ref)}})
                        if len(fails) > 3:
                            return {"evaluations": evals, "failures": fails}
    finally:
        logging.disable(logging.NOTSET)
    return {"evaluations": evals, "failures": fails}


# ---- state carried between serial lines: the sync-cycle tracker -------------------------------------
from collections import deque  # noqa: E402


def port_pkt_read_inner(self, pkt):
    """Call-site contract of the undecorated PortTransport._pkt_read (hands the packet on)."""
    self._ghost_delivered.append(pkt)


def sym_1f09(i):
    n = sym_str(f"sync{i}_n", 6, "digit")
    secs = sym_str(f"sync{i}_secs", 4, "HEX")
    return Packet.from_port(dt(2023, 11, 30, 13, 15, i), f"045  I --- 01:{n} --:------ 01:{n} 1F09 003 FF{secs}")


@harness("C01", cases=[(k, n) for k in (0, 1, 3) for n in (1, 3)])
def sync_tracker_never_poisons_the_stream(k, n):
    """track_system_syncs (the decorator on PortTransport._pkt_read) with any k remembered sync
    packets and any arriving packet with a 1F09-shaped header: it never raises, hands the
    packet on exactly once, and keeps the invariant that every remembered packet is an
    I|1F09 of 3 bytes -- so no later line can fail because of an earlier one."""
    set_global(_transport, "_global_sync_cycles", deque([sym_1f09(i) for i in range(k)], maxlen=3))
    verb = sym_choice("verb", [" I", "RP"])
    code = sym_choice("code", ["1F09", "30C9"])
    payload = sym_str("payload", 2 * n, "HEX")
    src = "01:" + sym_str("src_n", 6, "digit")
    p = outcome(Packet.from_port, dt(2023, 11, 30, 13, 16), f"045 {verb} --- {src} --:------ {src} {code} {n:03d} {payload}")
    assume(p.ok)
    tp = new_object(_transport.PortTransport, _ghost_delivered=[])
    inner = _transport.PortTransport._pkt_read.__wrapped__
    o = outcome(_transport.track_system_syncs(port_pkt_read_inner), tp, p.value)
    check(o.ok, "the sync tracker does not raise, whatever was remembered and whatever arrives")
    check(len(tp._ghost_delivered) == 1 and tp._ghost_delivered[0] is p.value, "the packet is handed on exactly once")
    q = get_global(_transport, "_global_sync_cycles")
    check(len(q) <= 3, "at most three sync cycles are remembered")
    for r in q:
        check(And(r.code == "1F09", r.verb == " I", r._len == 3), "every remembered packet is an I|1F09 with a 3-byte payload")
