"""C15 (partial) -- the topology stays structurally consistent: the association step.

Every parent/child link of the entity graph is made by ONE step: Child.set_parent -> Child._get_parent
-> Parent._add_child (packets reach it through Gateway.get_device(..., parent=, child_id=, is_sensor=),
Zone._update_schema, the 000C handlers and the eavesdropping hooks).  This file puts that step under
contract on real Controller / Evohome / Zone / DhwZone / UfhController / device objects:

 * a device that has a parent is never given another one, a device that has a controller is never
   given another one, a zone's sensor / the DHW sensor / a DHW valve / the appliance control is never
   replaced by another device -- unless the step RAISES (the inconsistency is reported);
 * a step that raises leaves the device and every slot of the parent as they were;
 * a step that returns has made the link on both sides (parent, controller, system, the parent's
   child table and role slot) and kept to the role rules (sensor / actuator classes per parent);
 * a zone is only looked up / created within the configured maximum (call-site precondition of
   get_htg_zone), and Zone.__init__ refuses an index at or above it and a duplicate index.

Evohome.get_htg_zone / get_dhw_zone are contracts (they go through the third-party validator):
"the zone of that index of THAT system, created if need be".
Not decided here: the schema validator (voluptuous), re-loading a schema into a fresh gateway, and
whole packet histories -- only the single association step from any state two steps can reach.
"""
from pyvc.api import *  # noqa: F401,F403
from pyvc.harness import harness
from ramses_rf import entity_base as EB
from ramses_rf import exceptions as rexc
from ramses_rf.device import heat as DH
from ramses_rf.system import heat as SH
from ramses_rf.system import zones as Z

CHILD_CLASSES = {"trv": DH.TrvActuator, "thm": DH.Thermostat, "bdr": DH.BdrSwitch, "dhw_sensor": DH.DhwSensor,
                 "otb": DH.OtbGateway, "ufc": DH.UfhController, "out": DH.OutSensor}


class FakeCfg:
    enable_eavesdrop = False


class FakeGwy:
    config = FakeCfg()


def make_system(tag, max_zones):
    """A controller with its system: two heating zones (00, 01), a DHW zone; nothing attached yet."""
    ctl = new_object(DH.Controller, _gwy=FakeGwy(), id=f"01:00000{tag}", type="01", _parent=None, _child_id=None, _is_sensor=None)
    tcs = new_object(SH.Evohome, _gwy=FakeGwy(), id=ctl.id, ctl=ctl, _max_zones=max_zones, zones=[], zone_by_idx={},
                     _dhw=None, _app_cntrl=None, childs=[], child_by_id={}, _child_id="FF")
    tcs.tcs = tcs
    ctl.ctl, ctl.tcs = ctl, tcs
    for idx in ("00", "01"):
        add_zone(tcs, idx)
    tcs._dhw = new_object(Z.DhwZone, _gwy=FakeGwy(), id=f"{ctl.id}_HW", tcs=tcs, ctl=ctl, _child_id="HW", _dhw_sensor=None,
                          _dhw_valve=None, _htg_valve=None, childs=[], child_by_id={})
    return ctl, tcs


def add_zone(tcs, idx):
    z = new_object(Z.Zone, _gwy=FakeGwy(), id=f"{tcs.id}_{idx}", tcs=tcs, ctl=tcs.ctl, _child_id=idx, _sensor=None,
                   actuators=[], actuator_by_id={}, childs=[], child_by_id={})
    tcs.zone_by_idx[idx] = z
    tcs.zones.append(z)
    return z


def get_htg_zone_contract(self, zone_idx, *, msg=None, **schema):
    """Evohome.get_htg_zone: the zone of that index of THIS system, created if need be; call-site
    precondition: the index is below the configured maximum (Zone.__init__ refuses it otherwise)."""
    check(int(zone_idx, 16) < self._max_zones, "a heating zone is only looked up / created below the configured maximum")
    ghost("zones_asked").append((self, zone_idx))
    z = self.zone_by_idx.get(zone_idx)
    if z is None:
        z = add_zone(self, zone_idx)
    return z


def get_dhw_zone_contract(self, *, msg=None, **schema):
    """StoredHw.get_dhw_zone: the DHW zone of THIS system."""
    return self._dhw


STUBS = {SH.MultiZone.get_htg_zone: get_htg_zone_contract, SH.StoredHw.get_dhw_zone: get_dhw_zone_contract}

CHILD_IDS = [None, "00", "01", "0F", "F9", "FA", "FC", "FF"]


def pick_parent(name, world):
    return world[sym_choice(name, sorted(world))]


ROLE_SLOTS = ("_sensor", "_dhw_sensor", "_dhw_valve", "_htg_valve", "_app_cntrl")


def slots(world):
    """Every role slot and child table of every parent (to compare before / after)."""
    out = []
    for k in sorted(world):
        p = world[k]
        for a in ROLE_SLOTS:
            if hasattr(p, a):
                out.append((k, a, getattr(p, a)))
        if hasattr(p, "actuators"):
            out.append((k, "actuators", list(p.actuators)))
        if hasattr(p, "childs"):
            out.append((k, "childs", list(p.childs)))
    return out


def same_slots(a, b):
    if len(a) != len(b):
        return False
    for (k1, a1, v1), (k2, a2, v2) in zip(a, b):
        if isinstance(v1, list):
            if len(v1) != len(v2) or any(x is not y for x, y in zip(v1, v2)):
                return False
        elif v1 is not v2:
            return False
    return True


def the_world(max_zones):
    ctl_a, tcs_a = make_system("1", max_zones)
    ctl_b, tcs_b = make_system("2", max_zones)
    ufc = new_object(DH.UfhController, _gwy=FakeGwy(), id="02:000001", type="02", _parent=None, _child_id=None, _is_sensor=None,
                     ctl=None, tcs=None, circuit_by_id={}, childs=[], child_by_id={})
    return {"ctl_a": ctl_a, "tcs_a": tcs_a, "zone_a0": tcs_a.zone_by_idx["00"], "zone_a1": tcs_a.zone_by_idx["01"], "dhw_a": tcs_a._dhw,
            "ctl_b": ctl_b, "zone_b0": tcs_b.zone_by_idx["00"], "ufc": ufc}


def new_child(kind, dev_id):
    extra = {"circuit_by_id": {}, "childs": [], "child_by_id": {}} if kind == "ufc" else {}
    return new_object(CHILD_CLASSES[kind], _gwy=FakeGwy(), id=dev_id, type=dev_id[:2], _parent=None, _child_id=None, _is_sensor=None,
                      ctl=None, tcs=None, **extra)


DEV_ID = {"trv": "04:000001", "thm": "34:000001", "bdr": "13:000001", "dhw_sensor": "07:000001", "otb": "10:000001",
          "ufc": "02:000002", "out": "17:000001"}

# a role already held by ANOTHER device when the device under test comes along: (parent, slot, the holder's class, its child id)
TAKEN = {"nothing": None,
         "zone_sensor": ("zone_a0", "_sensor", DH.Thermostat, "00"), "dhw_sensor": ("dhw_a", "_dhw_sensor", DH.DhwSensor, "FA"),
         "dhw_valve": ("dhw_a", "_dhw_valve", DH.BdrSwitch, "FA"), "htg_valve": ("dhw_a", "_htg_valve", DH.BdrSwitch, "F9"),
         "app_cntrl": ("tcs_a", "_app_cntrl", DH.BdrSwitch, "FC")}
RELEVANT = {"trv": "zone_sensor", "thm": "zone_sensor", "bdr": "dhw_valve", "dhw_sensor": "dhw_sensor", "otb": "app_cntrl",
            "ufc": "app_cntrl", "out": "zone_sensor"}


def take_role(world, taken):
    if TAKEN[taken] is None:
        return
    pk, slot, cls, cid = TAKEN[taken]
    p = world[pk]
    holder = new_object(cls, _gwy=FakeGwy(), id="99:000009", type="99", _parent=p, _child_id=cid, _is_sensor=slot.endswith("sensor"),
                        ctl=p.ctl, tcs=p.tcs)
    setattr(p, slot, holder)
    p.childs.append(holder)
    p.child_by_id[holder.id] = holder


def one_step(child, world, tag):
    parent = pick_parent(f"parent_{tag}", world)
    child_id = sym_choice(f"child_id_{tag}", CHILD_IDS)
    is_sensor = sym_bool(f"is_sensor_{tag}")
    before = (child._parent, child.ctl, child.tcs, child._child_id, slots(world))
    o = outcome(child.set_parent, parent, child_id=child_id, is_sensor=is_sensor)
    return o, before, is_sensor


def check_step(child, world, o, before, is_sensor, n):
    old_parent, old_ctl, old_tcs, old_child_id, old_slots = before
    if not o.ok:
        cover(f"step {n} was refused")
        check(And(child._parent is old_parent, child.ctl is old_ctl, child.tcs is old_tcs, child._child_id == old_child_id),
              "a refused association leaves the device's parent, controller, system and role as they were")
        check(same_slots(old_slots, slots(world)), "a refused association leaves every role slot and child table of every parent as it was")
        return
    cover(f"step {n} was accepted")
    p = o.value
    check(isinstance(p, (SH.System, Z.Zone, Z.DhwZone, DH.UfhController)), "the parent is a system, a zone, the DHW zone or a UFH controller")
    check(old_parent is None or p is old_parent, "a device that has a parent is never moved to another one without the inconsistency being reported")
    new_ctl = p if isinstance(p, DH.UfhController) else p.ctl
    check(old_ctl is None or new_ctl is old_ctl, "a device that has a controller is never given another one without the inconsistency being reported")
    check(And(child._parent is p, child.ctl is new_ctl, child.tcs is new_ctl.tcs), "an accepted association sets parent, controller and system together")
    check(any(c is child for c in p.childs) and p.child_by_id.get(child.id) is child, "and the parent lists the device among its children")
    now = {(k, a): v for k, a, v in slots(world)}
    for k, a, v in old_slots:
        if a in ROLE_SLOTS:
            check(v is None or now[(k, a)] is v, "a role that is taken (zone sensor, DHW sensor, DHW/heating valve, appliance control) is never given to another device without the inconsistency being reported")
            check(now[(k, a)] is v or (now[(k, a)] is child and world[k] is p), "and only the parent addressed, and only for the device itself, gets a role filled")
        elif a == "actuators":
            check(len(now[(k, a)]) >= len(v) and all(x is y for x, y in zip(v, now[(k, a)])), "no actuator is dropped from a zone")
            check(all(x is child and world[k] is p for x in now[(k, a)][len(v):]), "and only the parent addressed gets the device as an actuator")
    if isinstance(p, Z.Zone):
        check(child._child_id == p.idx, "a device in a heating zone carries that zone's index")
        if is_sensor:
            check(p._sensor is child, "the sensor of a zone is the device just accepted as its sensor")
            check(isinstance(child, (DH.Controller, DH.Thermostat, DH.TrvActuator)), "a zone sensor is a controller, a thermostat or a TRV")
        else:
            check(any(x is child for x in p.actuators) and p.actuator_by_id.get(child.id) is child, "an actuator accepted by a zone is in its actuator tables")
            check(len([x for x in p.actuators if x is child]) == 1, "and is listed once")
            check(isinstance(child, (DH.BdrSwitch, DH.TrvActuator, DH.UfhCircuit)), "a zone actuator is a relay, a TRV or a UFH circuit")
    elif isinstance(p, Z.DhwZone):
        check(child._child_id in ("F9", "FA"), "a device of the DHW zone is its sensor or one of its two valves")
        check(isinstance(child, DH.DhwSensor if is_sensor else DH.BdrSwitch), "the DHW sensor is a DHW sensor, a DHW valve is a relay")
    elif isinstance(p, SH.System):
        check(child._child_id in ("FC", "FF"), "a direct child of the system is the appliance control (FC) or a system-level device (FF)")


@harness("C15", cases=[(k, t) for k in sorted(CHILD_CLASSES) for t in sorted(TAKEN)], quick=lambda k, t: t in ("nothing", RELEVANT[k]),
         budget_s=900, stubs=STUBS)
def association_step_is_consistent(kind, taken):
    """Child.set_parent (with _get_parent and Parent._add_child) on a device of each class, twice in a row with
    ANY parent (either of two controllers, a system, zones, the DHW zone, a UFH controller), any child id and
    either sensor flag, while one role may already be held by ANOTHER device: each step either raises and
    changes nothing, or returns and the topology obeys the rules above; two accepted steps name one parent."""
    world = the_world(sym_int("max_zones", 1, 16))
    take_role(world, taken)
    child = new_child(kind, DEV_ID[kind])
    o1, before1, s1 = one_step(child, world, "1")
    check_step(child, world, o1, before1, s1, 1)
    if not o1.ok:
        return  # a refused step changed nothing (just checked): the device is as new, which step 1 covers
    role = child._child_id
    o2, before2, s2 = one_step(child, world, "2")
    check_step(child, world, o2, before2, s2, 2)
    if o2.ok:
        cover("the same device was accepted twice")
        check(o2.value is o1.value, "two accepted associations of one device name the same parent")
        check(child._child_id == role, "a device that has a role is never given a second one without the inconsistency being reported")


class FakeTcs:
    def __init__(self, max_zones, taken):
        self.id = "01:000001"
        self._max_zones = max_zones
        self.zone_by_idx = {i: object() for i in taken}
        self.ctl = None
        self._gwy = FakeGwy()


def zone_base_init_contract(self, tcs, zone_idx):
    """ZoneBase.__init__ (entity plumbing: message db, discovery table): sets id, idx, tcs, ctl."""
    self._child_id = zone_idx
    self.tcs = tcs


@harness("C15", stubs={Z.ZoneSchedule.__init__: zone_base_init_contract})
def zone_index_is_within_the_maximum():
    """Zone.__init__ for every two-hex-digit index and every configured maximum 1..16: a zone object
    exists only for an index below the maximum that the system does not have yet."""
    max_zones = sym_int("max_zones", 1, 16)
    idx = sym_str("zone_idx", 2, "HEX")
    taken = sym_bool("index_already_has_a_zone")
    tcs = FakeTcs(max_zones, [idx] if taken else [])
    o = outcome(lambda: Z.Zone(tcs, idx))
    if o.ok:
        cover("a zone was created")
        check(int(idx, 16) < max_zones, "a zone's index is below the configured maximum")
        check(not taken, "a system never gets a second zone for an index")
        check(And(o.value._sensor is None, len(o.value.actuators) == 0), "a new zone starts without sensor and actuators")
    else:
        cover("a zone was refused")
        check(Or(int(idx, 16) >= max_zones, taken), "a zone is refused only for an index at or above the maximum, or a duplicate")
        check(isinstance(o.exc, (LookupError, ValueError)), "and the refusal is a LookupError / ValueError")


def kf_two_dhw_valve_roles(inp):
    """Known-finding class: a relay that is one of the DHW zone's two valves (F9 heating valve / FA hot-water
    valve) is associated again as the OTHER one: same parent, so nothing is reported, and it then holds both."""
    a, b = inp.get("child_id_1"), inp.get("child_id_2")
    if a is None or b is None:
        return False
    return Or(And(a == "F9", b == "FA"), And(a == "FA", b == "F9"))
