"""C12 (partial) -- active discovery: the per-function half of "reconstructs the controller's configuration".

Convergence of the closed loop (prober + controller + timers) is a liveness property and is NOT decided
here.  What IS a contract of single functions, and is discharged on the real code:

 1. the REQUEST SET: what _setup_discovery_cmds of the system, of each zone class and of the DHW zone puts
    into the polling table covers every part of the configuration the property names -- the zone list per
    zone type (RQ|0005), each zone's sensor and actuators (RQ|000C idx|role), the hot-water sensor and valves,
    the appliance control;
 2. the INTERPRETATION of the replies: MultiZone._handle_msg creates exactly the zones whose bit is set in an
    RP|0005 (with the class the reply is about), and Zone._handle_msg associates exactly the devices an RP|000C
    lists, in the role it is about -- nothing the controller did not say;
 3. the RESCHEDULING rule of one pass of discover(): a task whose reply is fresh is not sent; a due task is sent
    once; whatever happens to that send (reply, protocol error, timeout) the task STAYS in the table and is due
    again within its interval -- a lost exchange only delays.
"""
import asyncio
import random
from datetime import datetime as _dt, timedelta as _td

from pyvc.api import *  # noqa: F401,F403
from pyvc.harness import harness
from ramses_rf import entity_base as EB
from ramses_rf.system import heat as SH
from ramses_rf.system import zones as Z
from ramses_tx import exceptions as exc

CTL = "01:145038"
T0 = _dt(2024, 1, 1, 12, 0)


class FakeCfg:
    enable_eavesdrop = False
    disable_discovery = True


class FakeGwy:
    config = FakeCfg()
    _zzz = None


class FakeCtl:
    id = CTL
    type = "01"


class ClockOfTheHarness:
    """datetime.now() as entity_base sees it: the harness's clock."""

    @staticmethod
    def now():
        return T0 + _td(seconds=ghost("now_s")[-1])


def the_clock_reads(secs):
    set_global(EB, "dt", ClockOfTheHarness)
    ghost("now_s").append(secs)


def uniform_contract(a, b):
    """random.uniform(a, b): some number in [a, b] (only used to jitter the first due time)."""
    return a


def requests_of(ent):
    """(verb, code, payload) of every command in the entity's polling table."""
    return [(t[EB._SZ_COMMAND].verb, t[EB._SZ_COMMAND].code, t[EB._SZ_COMMAND].payload) for t in ent._discovery_cmds.values()]


def table_is_well_formed(ent, within_s=400):
    r = True
    for hdr, t in ent._discovery_cmds.items():
        r = And(r, t[EB._SZ_COMMAND].rx_header == hdr, t[EB._SZ_FAILURES] == 0, t[EB._SZ_INTERVAL] >= _td(seconds=ent.MAX_CYCLE_SECS),
                t[EB._SZ_NEXT_DUE] >= T0, t[EB._SZ_NEXT_DUE] <= T0 + _td(seconds=within_s))
    return r


# ---- 1. the request set -------------------------------------------------------------------------------------
@harness("C12", stubs={random.uniform: uniform_contract})
def system_asks_for_every_part_of_the_configuration():
    """Evohome._setup_discovery_cmds (through every mixin's super() chain), on an empty polling table: the table
    holds an RQ|0005 for every heating-zone type (and for the zone sensors), an RQ|000C for the appliance control,
    for the hot-water valve, the heating valve and the DHW sensor -- each to the controller, each due at once or
    within seconds, each keyed by the header of its reply."""
    the_clock_reads(0)
    tcs = new_object(SH.Evohome, _gwy=FakeGwy(), id=CTL, ctl=FakeCtl(), _discovery_cmds={})
    o = outcome(tcs._setup_discovery_cmds)
    check(o.ok, "_setup_discovery_cmds does not raise")
    rq = requests_of(tcs)
    for zt in ("08", "09", "0A", "0B", "11", "04"):
        check(("RQ", "0005", "00" + zt) in rq, "the zone list of every zone type (radiator, UFH, zone valve, mixing, electric; sensors) is asked for")
    for payload, what in (("000F", "appliance control"), ("000E", "hot-water valve"), ("010E", "heating valve"), ("000D", "DHW sensor")):
        check(("RQ", "000C", payload) in rq, "the appliance control, both DHW valves and the DHW sensor are asked for")
    check(all(t[EB._SZ_COMMAND].dst.id == CTL for t in tcs._discovery_cmds.values()), "every request goes to the controller")
    check(table_is_well_formed(tcs, 3600), "every entry is keyed by its reply's header, has no failures yet and is first due within the hour")
    check(all(t[EB._SZ_NEXT_DUE] <= T0 + _td(seconds=10) for t in tcs._discovery_cmds.values() if t[EB._SZ_COMMAND].code in ("0005", "000C")),
          "the zone-list and device-list requests are due at once")


ZONE_CLASSES = {"unknown": Z.Zone, "ele": Z.EleZone, "mix": Z.MixZone, "rad": Z.RadZone, "ufh": Z.UfhZone, "val": Z.ValZone}
ROLE_OF = {"unknown": "00", "ele": "11", "mix": "0B", "rad": "08", "ufh": "09", "val": "0A"}


@harness("C12", cases=[(k,) for k in sorted(ZONE_CLASSES)], stubs={random.uniform: uniform_contract})
def zone_asks_for_its_sensor_and_actuators(kind):
    """Zone._setup_discovery_cmds for a zone of each class and ANY index 00-0B: the table holds an RQ|000C for the
    zone's sensor (idx|04) and one for its actuators in the role of its class (idx|08 radiator ... idx|00 when the
    class is not known yet), plus the zone's configuration / name / mode / temperature requests, all to the
    controller and all carrying the zone's own index."""
    the_clock_reads(0)
    i = sym_int("zone_idx", 0, 11)
    idx = f"{i:02X}"
    zone = new_object(ZONE_CLASSES[kind], _gwy=FakeGwy(), id=f"{CTL}_{idx}", ctl=FakeCtl(), _child_id=idx, _discovery_cmds={})
    o = outcome(zone._setup_discovery_cmds)
    check(o.ok, "_setup_discovery_cmds does not raise")
    rq = requests_of(zone)
    check(("RQ", "000C", idx + "04") in rq, "the zone's sensor is asked for")
    check(("RQ", "000C", idx + ROLE_OF[kind]) in rq, "the zone's actuators are asked for in the role of its class")
    for code in ("000A", "0004", "2349", "30C9"):
        check(any(v == "RQ" and c == code and p[:2] == idx for v, c, p in rq), "the zone's configuration, name, mode and temperature are asked for, for its own index")
    check(all(p[:2] == idx for v, c, p in rq), "every request of a zone carries that zone's index")
    check(table_is_well_formed(zone), "every entry is keyed by its reply's header, has no failures yet and is due soon")


@harness("C12", stubs={random.uniform: uniform_contract})
def dhw_zone_asks_for_its_sensor_and_valves():
    """DhwZone._setup_discovery_cmds: RQ|000C for the DHW sensor, the hot-water valve and the heating valve."""
    the_clock_reads(0)
    dhw = new_object(Z.DhwZone, _gwy=FakeGwy(), id=f"{CTL}_HW", ctl=FakeCtl(), _child_id="HW", _discovery_cmds={})
    o = outcome(dhw._setup_discovery_cmds)
    check(o.ok, "_setup_discovery_cmds does not raise")
    rq = requests_of(dhw)
    for payload in ("000D", "000E", "010E"):
        check(("RQ", "000C", payload) in rq, "the DHW sensor, the hot-water valve and the heating valve are asked for")
    check(table_is_well_formed(dhw), "every entry is keyed by its reply's header, has no failures yet and is due soon")


# ---- 2. the interpretation of the replies -------------------------------------------------------------------------
class FakeSrc:
    id = CTL
    type = "01"


class FakeMsg0005:
    code, verb = "0005", "RP"
    _has_array = False

    def __init__(self, zone_type, mask):
        self.src = self.dst = FakeSrc()
        self.payload = {"zone_type": zone_type, "zone_mask": mask, "zone_class": "x"}


def base_handle_msg_contract(self, msg):
    """SystemBase._handle_msg (stores the message, eavesdrops the appliance control): does not touch the zone list."""


def get_htg_zone_recorder(self, zone_idx, *, msg=None, **schema):
    """Evohome.get_htg_zone, recording call-site contract (the zone of that index, created if need be)."""
    ghost("zones_named").append((zone_idx, schema.get("class"), msg))
    return None


NAMES = {"08": "radiator_valve", "09": "underfloor_heating", "0A": "zone_valve", "0B": "mixing_valve", "11": "electric_heat"}


@harness("C12", cases=[(zt, top) for zt in ("08", "09", "0A", "0B", "11", "04") for top in range(16)], quick=lambda zt, top: top == 0, budget_s=900,
         stubs={SH.SystemBase._handle_msg: base_handle_msg_contract, SH.MultiZone.get_htg_zone: get_htg_zone_recorder})
def zone_list_reply_names_exactly_its_zones(zone_type, top):
    """MultiZone._handle_msg on an RP|0005 about any zone type with ANY 16-bit zone mask (the case fixes bits
    12-15, bits 0-11 are symbolic: the quick tier covers every mask of a 12-zone controller): a zone is looked up /
    created for exactly the indexes whose bit is set, with the class the reply is about (the
    sensor list: no class, the message is handed on) -- nothing for a bit that is clear."""
    bits = [sym_int(f"bit_{i}", 0, 1) for i in range(12)] + [(top >> j) & 1 for j in range(4)]
    tcs = new_object(SH.Evohome, _gwy=FakeGwy(), id=CTL, ctl=FakeCtl(), zone_by_idx={}, zones=[], _prev_30c9=None)
    msg = FakeMsg0005(zone_type, bits)
    o = outcome(tcs._handle_msg, msg)
    check(o.ok, "the reply is handled without an exception")
    named = ghost("zones_named")
    want = [f"{i:02X}" for i in range(16) if bits[i] == 1]
    check(sorted(z for z, c, m in named) == want, "exactly the zones whose bit is set are looked up / created, each once")
    if zone_type == "04":
        check(all(c is None and m is msg for z, c, m in named), "the sensor list names zones without a class")
    else:
        check(all(c == NAMES[zone_type] and m is None for z, c, m in named), "each with the class the reply is about")


class FakeMsg000C:
    code, verb = "000C", "RP"
    _has_array = False

    def __init__(self, ctl, idx, zone_type, devices):
        self.src = ctl
        self.dst = ctl
        self.payload = {"zone_idx": idx, "zone_type": zone_type, "device_role": "x", "devices": devices}


def zone_base_handle_msg_contract(self, msg):
    """ZoneBase._handle_msg (stores the message): does not touch sensor / actuators."""


def get_device_recorder(self, dev_id, *, msg=None, parent=None, child_id=None, is_sensor=None):
    """Gateway.get_device(dev_id, parent=, is_sensor=), recording call-site contract: the association step is C15's."""
    ghost("devices_named").append((dev_id, parent, bool(is_sensor)))
    return ("device", dev_id)


def update_schema_recorder(self, **schema):
    ghost("class_named").append(schema.get("class"))


class RecordingGwy(FakeGwy):
    get_device = get_device_recorder


@harness("C12", cases=[(r, n) for r in ("04", "00", "08", "09", "0A", "0B", "11") for n in (0, 1, 2, 3)],
         stubs={Z.ZoneSchedule._handle_msg: zone_base_handle_msg_contract, Z.Zone._update_schema: update_schema_recorder})
def device_list_reply_names_exactly_its_devices(role, n):
    """Zone._handle_msg on an RP|000C for this zone about any role, listing n devices (any ids): exactly the
    devices listed are associated with THIS zone -- the first one as its sensor when the reply is about the
    sensor, all of them as actuators otherwise -- and the zone's class is set only by a reply about a zone type,
    to that type; an empty list changes nothing."""
    ctl = FakeSrc()
    devs = [sym_dev(f"device_{i}") for i in range(n)]
    zone = new_object(Z.Zone, _gwy=RecordingGwy(), id=f"{CTL}_03", ctl=ctl, _child_id="03", _sensor=None, actuators=[], actuator_by_id={})
    msg = FakeMsg000C(ctl, "03", role, list(devs))
    o = outcome(zone._handle_msg, msg)
    check(o.ok, "the reply is handled without an exception")
    named, classes = ghost("devices_named"), ghost("class_named")
    if n == 0:
        check(And(len(named) == 0, len(classes) == 0, zone._sensor is None), "an empty device list changes nothing")
    elif role == "04":
        check(And(len(named) == 1, named[0][0] == devs[0], named[0][1] is zone, named[0][2]), "the first device listed becomes THIS zone's sensor")
        check(len(classes) == 0, "a sensor reply does not set the zone's class")
    else:
        check(len(named) == n, "every device listed is associated, once")
        for d, p, s in named:
            check(And(Or(*[d == want for want in devs]), p is zone, Not(s)), "each as an actuator of THIS zone, and nothing that was not listed")
        for want in devs:
            check(Or(*[d == want for d, p, s in named]), "no device listed is left out")
        if role == "00":
            check(len(classes) == 0, "a reply about generic actuators does not set the zone's class")
        else:
            check(classes == [NAMES[role]], "a reply about a zone type sets the zone's class to that type")


from .c02_frames import sym_dev  # noqa: E402


# ---- 3. one pass of discover(): the rescheduling rule -------------------------------------------------------------
class FakeCmdD:
    code = "000C"
    payload = "0304"
    rx_header = "000C|RP|01:145038|0304"


class FakePktD:
    def __init__(self, dtm):
        self.dtm = dtm


class FakeMsgD:
    def __init__(self, dtm):
        self.dtm = dtm
        self._pkt = FakePktD(dtm)

    def __lt__(self, other):
        return self.dtm < other.dtm


async def wait_for_contract(aw, timeout):
    """asyncio.wait_for: the awaited result, or TimeoutError when the time is up first."""
    ghost("sent").append("handed to the sender")
    if sym_bool("the_safety_timeout_fires"):
        raise TimeoutError()
    return await aw


class GwyD(FakeGwy):
    async def async_send_cmd(self, cmd, **kw):
        k = sym_choice("the_exchange", ["reply", "protocol_error"])
        if k == "protocol_error":
            raise exc.ProtocolSendFailed("no reply")
        return FakePktD(ClockOfTheHarness.now())


def get_msg_by_hdr_contract(self, hdr):
    """_get_msg_by_hdr: the stored message with that header, if any (C14's store rule)."""
    return ghost("stored_box")[0].get(hdr)


def not_deprecated_contract(self, code, ctx=None):
    return True


@harness("C12", stubs={asyncio.wait_for: wait_for_contract, EB._MessageDB._get_msg_by_hdr: get_msg_by_hdr_contract,
                       EB._Discovery._is_not_deprecated_cmd: not_deprecated_contract})
def a_lost_exchange_only_delays():
    """One pass of _Discovery.discover() over a task (RQ|000C, interval 24 h) in ANY state -- due or not, any
    number of earlier failures, a reply in the store or not (of any age): the task is sent at most once, and only
    when it is due and no fresh reply is stored; whatever happens to that send (reply, protocol error, the 15 s
    safety timeout) the task is still in the table and its next due time lies within now .. now + 24 h: a lost
    request or reply only delays (the back-off that would shorten the retry is switched off in the code: the retry
    comes one interval later); after a reply the failures are forgotten, after a loss they count one more."""
    the_clock_reads(0)
    interval = _td(hours=24)
    due_in = sym_int("due_in_s", -200000, 200000)
    failures = sym_int("earlier_failures", 0, 10)
    task = {EB._SZ_COMMAND: FakeCmdD(), EB._SZ_INTERVAL: interval, EB._SZ_LAST_PKT: None, EB._SZ_NEXT_DUE: T0 + _td(seconds=due_in), EB._SZ_TIMEOUT: None, EB._SZ_FAILURES: failures}
    stored = {}
    kind = sym_choice("a_reply_is_stored", ["none", "I", "RP"])
    age = sym_int("its_age_s", 0, 200000)
    if kind != "none":
        stored["000C|" + kind.rjust(2) + "|01:145038|0304"] = FakeMsgD(T0 - _td(seconds=age))
    ghost("stored_box").append(stored)
    ent = new_object(EB._Discovery, _gwy=GwyD(), id=CTL, _discovery_cmds={FakeCmdD.rx_header: task}, MAX_CYCLE_SECS=300, MIN_CYCLE_SECS=3)
    o = outcome(run_coro, ent.discover())
    check(o.ok, "a pass of discover() does not raise, whatever happens to the exchange")
    sent = ghost("sent")
    check(len(sent) <= 1, "a task is sent at most once per pass")
    fresh = kind != "none" and due_in < 86400 - age  # next_due < msg.dtm + interval
    due = (86400 - age <= 0) if fresh else (due_in <= 0)
    check((len(sent) == 1) == due, "it is sent exactly when it is due and no fresh reply postpones it")
    check(FakeCmdD.rx_header in ent._discovery_cmds and ent._discovery_cmds[FakeCmdD.rx_header] is task, "the task stays in the polling table")
    nd = task[EB._SZ_NEXT_DUE]
    if len(sent) == 1:
        check(And(nd >= T0, nd <= T0 + interval), "after an exchange, won or lost, the task is due again within its interval")
        if task[EB._SZ_LAST_PKT] is None:
            cover("the exchange was lost")
            check(task[EB._SZ_FAILURES] == (0 if fresh else failures) + 1, "a lost exchange counts as one more failure")
        else:
            cover("the exchange succeeded")
            check(And(task[EB._SZ_FAILURES] == 0, nd == T0 + interval), "a reply forgets the failures and the task is due one interval later")
    else:
        check(nd > T0, "a task that was not sent is due later")
        check(task[EB._SZ_FAILURES] == (0 if fresh else failures), "and its failure count is only reset by a fresh reply")
