"""C11 -- transmit regulation (partial): the duty-cycle bit bucket, the MQTT token bucket.

Functions under contract: transport.limit_duty_cycle.<locals>.decorator.<locals>.wrapper (the real closure,
obtained by applying the real decorator), MqttTransport.write_frame.  Time and bits are reals.
Per-call (per-segment) contracts S1-S4 are discharged; the window bound of the property follows
from them by the telescoping argument given in DESIGN.md (a paper lemma, listed as such).
Not decided: that every accepted frame is eventually written, once, in order (liveness / fairness),
and the inter-write gap semaphore.
"""
import asyncio

from pyvc.api import *  # noqa: F401,F403
from pyvc.harness import harness
from ramses_tx import transport as T
from ramses_tx.const import DUTY_CYCLE_DURATION, MAX_DUTY_CYCLE_RATE

FILL = 38400 * MAX_DUTY_CYCLE_RATE
CAP = FILL * DUTY_CYCLE_DURATION


async def sleep_stub(delay, result=None):
    ghost("sleeps").append(delay)
    return result


def perf_counter_stub():
    """perf_counter by contract (A14): a non-decreasing real; the harness fixes the readings."""
    q = ghost("clock")
    return q.pop(0)


async def radio_write(self, frame, *args, **kwargs):
    ghost("written").append(frame)
    if sym_bool("write_fails"):
        raise OSError("serial port gone")


@harness("C11", cases=[(n,) for n in (1, 24, 48)], stubs={asyncio.sleep: sleep_stub, T.perf_counter: perf_counter_stub})
def duty_cycle_call(n):
    """One call of the duty-cycle wrapper from an arbitrary bucket state (level b <= CAP, last top-up
    at time `last`): S1 the top-up creates no bits and caps the level; S2 the write waits exactly
    until the level covers the frame (or goes ahead at once); S3 the frame is debited exactly
    once, also when the write raises; S4 the frame's size is 330 + 10 bits per payload character."""
    b = sym_float("level", -5000.0, CAP)
    last = sym_float("last", 0.0, 1.0e6)
    t0 = sym_float("t0", 0.0, 1.0e6)
    t1 = sym_float("t1", 0.0, 1.0e6)
    assume(And(t0 >= last, t1 >= t0))
    ghost("clock").append(last)  # read once when the decorator is applied
    wrapper = T.limit_duty_cycle(MAX_DUTY_CYCLE_RATE)(radio_write)
    set_closure(wrapper, "bits_in_bucket", b)
    ghost("clock").append(t0)
    ghost("clock").append(t1)
    frame = "RQ --- 18:000730 01:145038 --:------ 0004 " + f"{n:03d} " + "00" * n
    size = 330 + 10 * 2 * n
    o = outcome(wrapper, opaque("transport"), frame)
    b_after = get_closure(wrapper, "bits_in_bucket")
    level = Ite(b + (t0 - last) * FILL < CAP, b + (t0 - last) * FILL, CAP)
    check(get_closure(wrapper, "last_time_bit_added") == t1, "S1 the top-up time is the clock reading (never earlier than before)")
    check(len(ghost("written")) == 1, "S3 the frame is handed to the radio exactly once")
    check(b_after == level - size, "S1+S3 new level == min(CAP, level + FILL * elapsed) - frame size: no bits are created, exactly one debit (also when the write raises)")
    check(b_after <= CAP, "S1 the level never exceeds the bucket capacity")
    sl = ghost("sleeps")
    if level < size:
        check(len(sl) == 1, "S2 a write the bucket cannot cover waits first")
        if len(sl) == 1:
            d = sl[0] * FILL - (size - level)
            check(And(d <= 0.001, d >= -0.001), "S2 the wait is (frame size - level) / FILL seconds (to within a thousandth of a bit)")
    else:
        check(len(sl) == 0, "S2 a write the bucket covers goes ahead at once")
    check(And(size >= 350, size <= 1290), "S4 a frame costs between 350 and 1290 bits")


async def radio_write_while_another_caller_debits(self, frame, *args, **kwargs):
    """The awaited write, during which another caller of the same wrapper runs its own debit
    (rely: other callers only ever *subtract their own frame size* from the shared level)."""
    w = ghost("wrapper")[0]
    set_closure(w, "bits_in_bucket", get_closure(w, "bits_in_bucket") - ghost("other_debit")[0])
    ghost("written").append(frame)


@harness("C11", stubs={asyncio.sleep: sleep_stub, T.perf_counter: perf_counter_stub})
def duty_cycle_debit_is_not_lost():
    """Rely/guarantee across the await: if another caller debits d bits while this call's write is
    in progress, both debits count -- the new level is (level - d) - size, not a stale value."""
    b = sym_float("level", 0.0, CAP)
    d = sym_float("other_debit", 350.0, 1290.0)
    ghost("clock").append(0.0)
    wrapper = T.limit_duty_cycle(MAX_DUTY_CYCLE_RATE)(radio_write_while_another_caller_debits)
    set_closure(wrapper, "bits_in_bucket", b)
    ghost("wrapper").append(wrapper)
    ghost("other_debit").append(d)
    ghost("clock").append(0.0)
    ghost("clock").append(0.0)
    frame = "RQ --- 18:000730 01:145038 --:------ 0004 002 0000"
    outcome(wrapper, opaque("transport"), frame)
    after = get_closure(wrapper, "bits_in_bucket")
    diff = after - (b - d - 370)
    check(And(diff <= 0.001, diff >= -0.001), "a debit made by another caller during the write is not lost")


async def mqtt_publish(self, frame, *args, **kwargs):
    ghost("written").append(frame)


@harness("C11", cases=[(d,) for d in (False, True)],
         stubs={asyncio.sleep: sleep_stub, T.perf_counter: perf_counter_stub, T._FullTransport.write_frame: mqtt_publish})
def mqtt_token_bucket(disable_limits):
    """MqttTransport.write_frame from an arbitrary bucket state: tokens never exceed the maximum, an
    over-budget write (it would have to wait a second or more) is dropped, not queued; a write
    in debt first sleeps debt / rate seconds; every accepted write costs exactly one token."""
    M = T.MqttTransport
    maxt = sym_float("max_tokens", float(M._MAX_TOKENS), float(M._MAX_TOKENS * 2))
    num = sym_float("num_tokens", -2.0, float(M._MAX_TOKENS * 2))
    assume(num <= maxt)
    last = sym_float("last", 0.0, 1.0e6)
    now = sym_float("now", 0.0, 1.0e6)
    assume(now >= last)
    ghost("clock").append(now)
    tp = new_object(M, _timestamp=last, _max_tokens=maxt, _num_tokens=num)
    o = outcome(tp.write_frame, "RQ --- 18:000730 01:145038 --:------ 0004 002 0000", disable_limits)
    check(o.ok, "write_frame does not raise")
    level = Ite(num + (now - last) * M._TOKEN_RATE < maxt, num + (now - last) * M._TOKEN_RATE, maxt)
    written = len(ghost("written"))
    check(tp._num_tokens <= tp._max_tokens + 0.0 or tp._num_tokens <= maxt, "the token count never exceeds the allowance")
    if not disable_limits:
        check(Implies(level < 1.0 - M._TOKEN_RATE, written == 0 and tp._num_tokens == level), "an over-budget write is dropped (nothing published, no token taken)")
        check(Implies(level >= 1.0 - M._TOKEN_RATE, written == 1 and tp._num_tokens == level - 1.0), "an accepted write is published once and costs exactly one token")
        sl = ghost("sleeps")
        check(Implies(And(level >= 1.0 - M._TOKEN_RATE, level < 1.0 - 1.0e-9), len(sl) == 1), "a write in token debt sleeps first")
        if len(sl) == 1:
            d = sl[0] * M._TOKEN_RATE - (1.0 - level)
            check(And(d <= 1.0e-6, d >= -1.0e-6, sl[0] <= 1.0 + 1.0e-6), "the sleep pays the debt: debt / TOKEN_RATE seconds, never more than a second")
    else:
        check(written == 1, "with limits disabled the frame is always published")
    check(tp._max_tokens >= M._MAX_TOKENS, "the allowance never drops below MAX_TOKENS")
    check(tp._timestamp == now, "the refill clock advances on every call, accepted or dropped (elapsed time is credited once)")


from pyvc.harness import structural  # noqa: E402


@structural("C11")
def serial_writes_go_through_the_regulator():
    """PortTransport.write_frame is wrapped by limit_duty_cycle(MAX_DUTY_CYCLE_RATE) (outermost) and
    the rate makes the wrapper, not the null wrapper, the one in use."""
    import ast
    import inspect
    import textwrap
    src = textwrap.dedent(inspect.getsource(T.PortTransport))
    cls = ast.parse(src).body[0]
    fn = next(n for n in cls.body if isinstance(n, ast.AsyncFunctionDef) and n.name == "write_frame")
    decs = [ast.unparse(d) for d in fn.decorator_list]
    return [
        ("PortTransport.write_frame is decorated with limit_duty_cycle(MAX_DUTY_CYCLE_RATE), outermost",
         bool(decs) and decs[0] == "limit_duty_cycle(MAX_DUTY_CYCLE_RATE)", str(decs)),
        ("0 < MAX_DUTY_CYCLE_RATE <= 1, so the limiting wrapper (not the null wrapper) is installed",
         0 < MAX_DUTY_CYCLE_RATE <= 1, str(MAX_DUTY_CYCLE_RATE)),
        ("the bucket holds DUTY_CYCLE_DURATION (60 s) worth of bits", DUTY_CYCLE_DURATION == 60, str(DUTY_CYCLE_DURATION)),
        ("the inter-write gap permit is a BoundedSemaphore (idle time cannot bank more than one permit)",
         "self._leaker_sem = asyncio.BoundedSemaphore()" in src, "PortTransport.__init__"),
    ]
