"""C10 -- device filters are sound and complete.

Functions under contract: protocol._DeviceIdFilterMixin._is_wanted_addrs, .pkt_received, .send_cmd,
._set_active_hgi, ._extract_known_hgi_id; ramses_rf Gateway.get_device.<locals>.check_filter_lists
(through get_device).  The block list and the known list are *abstract* id sets (membership is an
uninterpreted predicate), so the contracts hold for lists of any size and content.
"""
from pyvc.api import *  # noqa: F401,F403
from pyvc.harness import harness
from ramses_tx import exceptions as exc
from ramses_tx import protocol as P

from .c02_frames import sym_dev

HGI = "18:000730"
NON = "--:------"
ALL = "63:262142"


def sym_id(name):
    """Any address a frame can carry: a device id, the null address or the broadcast address."""
    k = sym_choice(name + "_kind", ["dev", "non", "all", "hgi"])
    if k == "non":
        return NON
    if k == "all":
        return ALL
    if k == "hgi":
        return HGI
    return sym_dev(name)


def make_protocol(src, dst):
    """A ReadProtocol whose lists, enforcement flag and active gateway are arbitrary."""
    active = None if sym_bool("no_active_hgi") else sym_dev("active")
    excl = sym_idset("exclude", [src, dst, active, HGI])
    incl = sym_idset("include", [src, dst, active, HGI])
    incl.append(ALL)  # what __init__ appends to the known list
    incl.append(NON)
    pr = new_object(P.ReadProtocol, enforce_include=sym_bool("enforce"), _exclude=excl, _include=incl,
                    _active_hgi=active, _foreign_gwys_lst=[], _foreign_last_run=None, _ghost_delivered=[], _ghost_sent=[])
    return pr, excl, incl, active


def wanted_spec(pr, excl, incl, active, src, dst, sending):
    """The property: nothing block-listed; with the known list enforced every address is listed,
    the active gateway, a null/broadcast address, or (sending only) the placeholder id."""
    def allowed(x):
        return Or(x in incl, Ite(active is None, False, x == active), And(sending, x == HGI))
    blocked = Or(src in excl, dst in excl)
    return And(Not(blocked), Implies(pr.enforce_include, And(allowed(src), allowed(dst))))


@harness("C10", cases=[(False,), (True,)])
def is_wanted_addrs_contract(sending):
    src, dst = sym_id("src"), sym_id("dst")
    pr, excl, incl, active = make_protocol(src, dst)
    if active is not None:
        assume(Not(active in excl))  # invariant established by _set_active_hgi (proved below)
    o = outcome(pr._is_wanted_addrs, src, dst, sending)
    check(o.ok, "_is_wanted_addrs does not raise")
    spec = wanted_spec(pr, excl, incl, active, src, dst, sending)
    check(Implies(o.value, spec), "sound: an accepted address pair has no blocked id and (if enforced) only allowed ids")
    check(Implies(spec, o.value), "complete: an address pair whose ids are all allowed is accepted")
    check(And(pr._exclude is excl, pr._include is incl, pr._active_hgi is active), "frame: lists and active gateway are not assigned")


def base_pkt_received(self, pkt):
    self._ghost_delivered.append(pkt)


async def base_send_cmd(self, cmd, *args, **kwargs):
    self._ghost_sent.append(cmd)
    return opaque("echo")


class FakeAddr:
    def __init__(self, id_):
        self.id = id_


class FakeFrame:
    def __init__(self, src, dst):
        self.src, self.dst = FakeAddr(src), FakeAddr(dst)


@harness("C10", stubs={P._BaseProtocol.pkt_received: base_pkt_received})
def receive_gate():
    """pkt_received hands the packet on iff its addresses are wanted (by the contract above)."""
    src, dst = sym_id("src"), sym_id("dst")
    pr, excl, incl, active = make_protocol(src, dst)
    if active is not None:
        assume(Not(active in excl))
    pkt = FakeFrame(src, dst)
    o = outcome(pr.pkt_received, pkt)
    check(o.ok, "pkt_received does not raise")
    spec = wanted_spec(pr, excl, incl, active, src, dst, False)
    delivered = len(pr._ghost_delivered) == 1
    check(len(pr._ghost_delivered) <= 1, "a packet is handed on at most once")
    check(Implies(delivered, spec), "a packet with a blocked (or, if enforced, unlisted) address is never delivered")
    check(Implies(spec, delivered), "a packet all of whose addresses are allowed is always delivered")


async def impersonation_alert_stub(self, cmd):
    self._ghost_alerts.append(cmd)


@harness("C10", cases=[("mixin",), ("port",)],
         stubs={P._BaseProtocol.send_cmd: base_send_cmd, P.PortProtocol._send_impersonation_alert: impersonation_alert_stub})
def send_gate(entry):
    """send_cmd (the filter mixin's, and PortProtocol's which wraps it) passes the command down
    to the sender iff its addresses are wanted; otherwise it raises ProtocolError."""
    src, dst = sym_id("src"), sym_id("dst")
    active = None if sym_bool("no_active_hgi") else sym_dev("active")
    excl = sym_idset("exclude", [src, dst, active, HGI])
    incl = sym_idset("include", [src, dst, active, HGI])
    incl.append(ALL)
    incl.append(NON)
    if active is not None:
        assume(Not(active in excl))
    pr = new_object(P.PortProtocol, enforce_include=sym_bool("enforce"), _exclude=excl, _include=incl, _active_hgi=active,
                    _foreign_gwys_lst=[], _foreign_last_run=None, _ghost_sent=[], _ghost_alerts=[], _context=opaque("ctx"))
    cmd = FakeFrame(src, dst)
    if entry == "mixin":
        o = outcome(P._DeviceIdFilterMixin.send_cmd, pr, cmd)
    else:
        o = outcome(pr.send_cmd, cmd)
    spec = wanted_spec(pr, excl, incl, active, src, dst, True)
    sent = len(pr._ghost_sent) == 1
    check(len(pr._ghost_sent) <= 1, "a command is passed down at most once")
    check(Implies(sent, spec), "a command to/from a blocked (or unlisted) device never reaches the sender")
    check(Implies(Not(spec), And(o.raised_in(exc.ProtocolError), Not(sent))), "a refused command raises ProtocolError")
    check(Implies(spec, And(o.ok, sent)), "an allowed command is passed down")


@harness("C10")
def set_active_hgi_contract():
    """A block-listed gateway id never becomes the active gateway."""
    dev = sym_dev("dev")
    excl = sym_idset("exclude", [dev])
    incl = sym_idset("include", [dev])
    pr = new_object(P.ReadProtocol, enforce_include=sym_bool("enforce"), _exclude=excl, _include=incl, _active_hgi=None)
    o = outcome(pr._set_active_hgi, dev, sym_bool("by_signature"))
    check(o.ok, "_set_active_hgi does not raise")
    check(Implies(dev in excl, pr._active_hgi is None), "a blocked id does not become the active gateway")
    check(Implies(Not(dev in excl), pr._active_hgi == dev), "an id that is not blocked becomes the active gateway")


# ---- entity creation: Gateway.get_device ---------------------------------------------------------------
from ramses_rf import gateway as G  # noqa: E402
from ramses_tx import schemas as TS  # noqa: E402


def device_factory_stub(gwy, addr, msg=None, **traits):
    d = FakeAddr(addr.id)
    gwy._ghost_created.append(d)
    return d


def sch_traits_stub(x):
    return {}


class FakeHgi:
    def __init__(self, id_):
        self.id = id_


@harness("C10", stubs={G.device_factory: device_factory_stub})
def get_device_respects_the_lists():
    """Gateway.get_device raises LookupError -- and creates nothing -- for an id that is block-listed,
    or (known list enforced) not listed and not the gateway; it never raises for an allowed id."""
    dev = sym_dev("dev")
    hgi = None if sym_bool("no_hgi") else sym_dev("hgi")
    phgi = sym_dev("protocol_hgi")
    excl = sym_idset("exclude", [dev, hgi, phgi])
    incl = sym_idset("include", [dev, hgi, phgi])
    unwanted = sym_idset("unwanted", [dev])
    gwy = new_object(G.Gateway, _unwanted=unwanted, _include=id_mapping(incl), _exclude=id_mapping(excl), _enforce_known_list=sym_bool("enforce"),
                     _protocol=FakeProtocolHgi(phgi), devices=[], _ghost_created=[],
                     _transport=FakeTransportHgi(hgi), device_by_id={} if hgi is None else {hgi: FakeHgi(hgi)})
    o = outcome(gwy.get_device, dev)
    listed = Or(dev in incl, Ite(hgi is None, False, dev == hgi))
    refused = Or(dev in unwanted, dev in excl, And(gwy._enforce_known_list, Not(listed)))
    exempt = dev == phgi
    check(Or(o.ok, o.raised_in(LookupError)), "get_device returns a device or raises LookupError")
    check(Implies(And(refused, Not(exempt)), And(o.raised_in(LookupError), len(gwy._ghost_created) == 0)),
          "a blocked / unlisted id is refused with LookupError and no device is created")
    check(Implies(Not(refused), o.ok), "an allowed id is never refused")


class FakeTransportHgi:
    def __init__(self, hgi_id):
        self.hgi_id = hgi_id

    def get_extra_info(self, name, default=None):
        return self.hgi_id


class FakeProtocolHgi:
    def __init__(self, hgi_id):
        self.hgi_id = hgi_id


def base_init_stub(self, msg_handler):
    self._ghost_base_init = True


@harness("C10", stubs={P._BaseProtocol.__init__: base_init_stub})
def filter_lists_are_set_up():
    """_DeviceIdFilterMixin.__init__: the block list is exactly the configured block list; the known
    list holds every configured id plus the broadcast (63:262142) and the null (--:------)
    address -- which the packet filter relies on to let all-allowed packets through."""
    a, b, c = sym_dev("a"), sym_dev("b"), sym_dev("c")
    assume(a != b)
    pr = new_object(P.ReadProtocol)
    o = outcome(P._DeviceIdFilterMixin.__init__, pr, opaque("handler"), enforce_include_list=sym_bool("enforce"),
                exclude_list={c: {}}, include_list={a: {}, b: {"class": "HGI"}})
    check(o.ok, "the filter mixin initialises")
    check(And(a in pr._include, b in pr._include), "every configured known id is in the known list")
    check(And(ALL in pr._include, NON in pr._include), "the broadcast and the null address are always allowed")
    check(And(c in pr._exclude, len(pr._exclude) == 1), "the block list is the configured one")
    check(pr._active_hgi is None, "no gateway is active before one is seen")


# ---- the enforcement setting itself ---------------------------------------------------------------------
from ramses_tx import schemas as TS  # noqa: E402


@harness("C10", cases=[(n, m) for n in (0, 1, 2, 3) for m in (0, 1)])
def enforcement_is_the_configured_one(n, m):
    """select_device_filter_mode (what Engine.__init__ stores as _enforce_known_list and hands to the
    protocol's filter and to Gateway.get_device): with a known list of n ids of ANY device types (gateways
    included) and a block list of m ids, the known list is enforced exactly when enforcement is configured
    and the known list is not empty -- the kinds of devices listed never switch it off."""
    known = {}
    for i in range(n):
        known[sym_dev(f"known_{i}")] = {}
    assume(len(known) == n)  # distinct ids
    block = {sym_dev("blocked"): {}} if m else {}
    enforce = sym_bool("enforce_known_list")
    o = outcome(TS.select_device_filter_mode, enforce, known, block)
    check(o.ok, "select_device_filter_mode does not raise")
    if o.ok:
        check(bool(o.value) == (enforce and n > 0), "the known list is enforced iff that is configured and the list is not empty")
