"""C14 -- state is fresh: expiry arithmetic, lifetimes, the store rule and the read rule.

Functions under contract: message.Message._expired, packet.pkt_lifespan, entity_base._MessageDB._handle_msg,
_MessageDB._msg_value_msg.  Not decided: MultiZone._handle_msg routing of array payloads to zones.
"""
from datetime import datetime as dt, timedelta as td

from pyvc.api import *  # noqa: F401,F403
from pyvc.harness import harness
from ramses_rf import entity_base as EB
from ramses_tx import packet as _packet
from ramses_tx.frame import Frame
from ramses_tx.message import Message
from ramses_tx.ramses import CODES_SCHEMA

from .c02_frames import sym_dev

T0 = dt(2023, 11, 30, 13, 15)


class FakeGwy:
    def __init__(self, now):
        self.now = now
        self.scheduled = []
        self._loop = self
        self._zzz = None

    def _dt_now(self):
        return self.now

    def call_soon(self, fn, *args):
        self.scheduled.append((fn, args))


class FakePkt:
    def __init__(self, lifespan, ctx=False):
        self._lifespan = lifespan
        self._ctx = ctx


LIFESPANS = sorted({int(v.total_seconds()) for v in (
    [x.get("lifespan") for x in CODES_SCHEMA.values() if isinstance(x.get("lifespan"), td)]
    + [td(seconds=360), td(minutes=5) * 2.1, td(minutes=60) * 2.1, td(minutes=360) * 2.1, td(minutes=60), td(days=1)])})


def make_msg(lifespan, code, verb, age_us, payload=None):
    """A Message received at T0, looked at age_us microseconds later."""
    now = T0 + td(microseconds=1) * age_us
    return new_object(Message, code=code, verb=verb, dtm=T0, _pkt=FakePkt(lifespan), _gwy=FakeGwy(now), _payload=payload,
                      _fraction_expired=None)


@harness(("C14", "C13"), cases=[(s,) for s in LIFESPANS])
def expiry_thresholds(secs):
    """For a message whose kind has lifetime L: never expired before L has passed, always once
    2L + 3 s has passed; exactly: expired <=> age >= 2L + 3 s.  Expiry never un-happens."""
    L = td(seconds=secs)
    age = sym_int("age_us", 0, 10 ** 13)
    later = sym_int("later_us", 0, 10 ** 13)
    assume(later >= age)
    m = make_msg(L, "30C9", " I", age)
    o = outcome(getattr, m, "_expired")
    check(o.ok, "_expired does not raise")
    lim = 2 * secs * 10 ** 6 + 3 * 10 ** 6
    check(Implies(age < secs * 10 ** 6, Not(o.value)), "not expired before its lifetime has passed")
    check(Implies(age >= lim, o.value), "expired once twice its lifetime plus 3 s has passed")
    check(o.value == (age >= lim), "expired exactly when age >= 2 x lifetime + 3 s")
    # monotone: the same message looked at later (the cached fraction is kept)
    m._gwy.now = T0 + td(microseconds=1) * later
    o2 = outcome(getattr, m, "_expired")
    check(o2.ok and Implies(o.value, o2.value), "expiry never un-happens as time advances")


def kf_exact_sentinel(inputs):
    """The first reading falls on the one instant at which the computed fraction is exactly -1.0."""
    return inputs["edge_us"] == 0


@harness(("C14", "C16"), cases=[(s,) for s in LIFESPANS], quick=lambda s: s in (360, 3600, 86400))
def expiry_has_no_memory_of_a_clock_that_was_behind(secs):
    """A message first looked at while the gateway clock was behind the packet's own timestamp (a
    snapshot restored into a fresh gateway: its clock is the last packet it heard, or 1970) and
    looked at again later: the second answer is the one its age then calls for.  Only expiry
    itself is sticky."""
    first = sym_int("first_us", -10 ** 13, 10 ** 13)
    edge = sym_int("edge_us", -2 * 10 ** 13, 2 * 10 ** 13)
    assume(edge == first + (secs - 3) * 10 ** 6)  # (names the distance to the instant where the fraction is exactly -1)
    later = sym_int("later_us", 0, 10 ** 13)
    m = make_msg(td(seconds=secs), "30C9", " I", first)
    o1 = outcome(getattr, m, "_expired")
    m._gwy.now = T0 + td(microseconds=1) * later
    o2 = outcome(getattr, m, "_expired")
    check(o1.ok and o2.ok, "_expired does not raise")
    lim = 2 * secs * 10 ** 6 + 3 * 10 ** 6
    check(Implies(And(Not(o1.value), later >= lim), o2.value), "a message first read while the clock was behind still expires when its time has come")
    check(Implies(And(Not(o1.value), later < lim), Not(o2.value)), "and is not expired before that")


@harness("C14", cases=[(v,) for v in ("RQ", " W", " I", "RP")])
def expiry_of_requests_and_unexpirable(verb):
    """A message whose packet lifespan is False can not expire."""
    age = sym_int("age_us", 0, 10 ** 15)
    m = make_msg(False, "30C9", verb, age)
    o = outcome(getattr, m, "_expired")
    check(o.ok and o.value is False, "a message with no lifespan never expires")


@harness(("C14", "C13"), cases=[(v,) for v in (" I", "RP", " W")])
def expiry_of_sync_cycle(verb):
    """1F09: the lifetime is the countdown carried in the payload (0 .. 6553.5 s)."""
    k = sym_int("tenths", 0, 65535)
    age = sym_int("age_us", 0, 10 ** 11)
    m = make_msg(td(seconds=360), "1F09", verb, age, payload={"remaining_seconds": k / 10})
    o = outcome(getattr, m, "_expired")
    check(o.ok, "_expired does not raise for any countdown (incl. 0)")
    if o.ok:
        L = k * 100000
        check(Implies(age < L, Not(o.value)), "not expired before the countdown has passed")
        check(Implies(age >= 2 * L + 3 * 10 ** 6, o.value), "expired once twice the countdown plus 3 s has passed")


# ---- lifetimes: pkt_lifespan is the table ------------------------------------------------------------
from ramses_tx.opentherm import PARAMS_DATA_IDS, SCHEMA_DATA_IDS  # noqa: E402

SPECIAL = ["0005", "000C", "0006", "0404", "000A", "10E0", "1F09", "1FC9", "2309", "30C9", "3220"]
SCHEMA_TD = {str(k): v["lifespan"] for k, v in CODES_SCHEMA.items() if isinstance(v.get("lifespan"), td)}
SCHEMA_OTHER = sorted(str(k) for k, v in CODES_SCHEMA.items() if "lifespan" in v and not isinstance(v["lifespan"], td))


def lifespan_spec(verb, code, has_array, msg_id):
    """The lifetime of a message kind (the table of packet.pkt_lifespan, written out)."""
    if verb in ("RQ", " W"):
        return td(0)
    if code in ("0005", "000C", "0404", "10E0"):
        return td(days=1)
    if code == "0006":
        return td(minutes=60)
    if code == "000A" and has_array:
        return td(minutes=60)
    if code == "1F09":
        return td(seconds=360) if verb == " I" else td(0)
    if code == "1FC9" and verb == "RP":
        return td(days=1)
    if code in ("2309", "30C9") and has_array:
        return td(seconds=360)
    if code == "3220":
        if msg_id in SCHEMA_DATA_IDS:
            return td(minutes=360) * 2.1
        if msg_id in PARAMS_DATA_IDS:
            return td(minutes=60) * 2.1
        return td(minutes=5) * 2.1
    if code in SCHEMA_TD:
        return SCHEMA_TD[code]
    return td(minutes=60)


LIFE_CASES = [(c, n) for c in SPECIAL + sorted(SCHEMA_TD)[:6] + SCHEMA_OTHER[:2] + ["other"] for n in (3, 6)]


@harness("C14", cases=LIFE_CASES)
def pkt_lifespan_contract(codeclass, n):
    """pkt_lifespan(pkt) == lifespan_spec(verb, code, _has_array, data-id); it assigns nothing but
    the frame's memo fields (serves the call-site contract used by C01/C02/C05/C06)."""
    verb = sym_choice("verb", [" I", "RP", "RQ", " W"])
    shape = sym_choice("shape", ["self", "src_dst"])
    src = sym_dev("src")
    if codeclass == "other":
        code = sym_str("code", 4, "HEX")
        for c in SPECIAL + sorted(SCHEMA_TD) + SCHEMA_OTHER:
            assume(code != c)
    else:
        code = codeclass
    payload = sym_str("payload", 2 * n, "HEX")
    addrs = f"{src} --:------ {src}" if shape == "self" else f"{src} {sym_dev('dst')} --:------"
    text = f"{verb} --- {addrs} {code} {n:03d} {payload}"
    f = outcome(Frame, text)
    assume(f.ok)
    o = outcome(_packet.pkt_lifespan, f.value)
    assume(o.ok)  # (which exceptions may leave it: C01 pkt_lifespan_raises)
    ha = outcome(getattr, f.value, "_has_array")
    want = lifespan_spec(verb, code, ha.ok and bool(ha.value), int(payload[4:6], 16))
    check(o.value == want, "the lifetime is the one the table gives for this kind of message")
    check(And(f.value._frame == text, f.value.verb == verb, f.value.code == code, f.value.payload == payload),
          "frame: pkt_lifespan does not assign the frame's fields")


# ---- the store rule: a message replaces exactly its own (code, verb, context) slot -------------------------
class FakeAddrId:
    def __init__(self, id_):
        self.id = id_


def fake_msg(name, src, dst, code, verb, ctx):
    return new_object(Message, src=FakeAddrId(src), dst=FakeAddrId(dst), code=code, verb=verb, _pkt=FakePkt(td(hours=1), ctx), _ghost_name=name)


CTXS = ["00", "01", True, False]


@harness("C14")
def store_rule():
    """_MessageDB._handle_msg: a message from (or, unless a request, to) this entity is stored as
    the newest for its (code, verb, context) and -- if I/RP -- for its code; every other slot
    of the entity's message store keeps what it held; anything else is not stored."""
    me = sym_dev("me")
    src, dst = sym_dev("src"), sym_dev("dst")
    code = sym_choice("code", ["30C9", "2309"])
    verb = sym_choice("verb", [" I", "RP", "RQ", " W"])
    ctx = sym_choice("ctx", CTXS)
    msg = fake_msg("new", src, dst, code, verb, ctx)
    # what the store held before: one older message in some slot
    ocode = sym_choice("old_code", ["30C9", "2309"])
    overb = sym_choice("old_verb", [" I", "RP"])
    octx = sym_choice("old_ctx", CTXS)
    old = fake_msg("old", me, "63:262142", ocode, overb, octx)
    ent = new_object(EB._MessageDB, id=me, _msgs_={ocode: old}, _msgz_={ocode: {overb: {octx: old}}})
    o = outcome(ent._handle_msg, msg)
    check(o.ok, "_handle_msg does not raise")
    mine = Or(src == me, And(dst == me, verb != "RQ"))
    same_slot = ocode == code and overb == verb and octx is ctx
    if mine:
        check(ent._msgz_[code][verb][ctx] is msg, "the message is the newest for its (code, verb, context)")
        if verb in (" I", "RP"):
            check(ent._msgs_[code] is msg, "an I/RP is the newest for its code")
        if not same_slot:
            check(ent._msgz_[ocode][overb][octx] is old, "every other (code, verb, context) slot keeps its message")
        if ocode != code or verb not in (" I", "RP"):
            check(ent._msgs_[ocode] is old, "another code's newest message is untouched")
    else:
        check(And(ent._msgs_[ocode] is old, ent._msgz_[ocode][overb][octx] is old), "a message that is not from/to this entity changes nothing")
        check(len(ent._msgz_) == 1 and len(ent._msgz_[ocode]) == 1 and len(ent._msgz_[ocode][overb]) == 1, "nothing is added for it")


# ---- the read rule ---------------------------------------------------------------------------------------------
@harness("C14", cases=[("dict",), ("list",)])
def read_rule(kind):
    """_msg_value_msg: an expired message's value is not reported (reads as unknown) and its
    deletion is scheduled; a live message's value is reported -- for an array, the element
    of the requested zone."""
    age = sym_int("age_us", 0, 10 ** 11)
    L = td(minutes=60)
    temp = sym_int("centi", -1000, 5000) / 100
    if kind == "dict":
        payload = {"zone_idx": "01", "temperature": temp}
    else:
        payload = [{"zone_idx": "00", "temperature": 12.5}, {"zone_idx": "01", "temperature": temp}]
    m = make_msg(L, "30C9", " I", age, payload=payload)
    ent = new_object(EB._MessageDB, id="01:145038", _gwy=m._gwy, _msgs_={}, _msgz_={})
    o = outcome(ent._msg_value_msg, m, key="temperature", zone_idx="01")
    check(o.ok, "_msg_value_msg does not raise")
    expired = age >= 2 * 3600 * 10 ** 6 + 3 * 10 ** 6
    check(Implies(Not(expired), o.value == temp), "a live message's value (of the requested zone) is reported")
    check(Implies(expired, len(m._gwy.scheduled) == 1), "an expired message is scheduled for deletion")
    check(Implies(expired, o.value is None), "an expired message's value is not reported")


# ---- traffic from other devices is never merged in; deleting one message deletes only that one ----------
from ramses_rf import dispatcher as D  # noqa: E402
from ramses_rf.device import Device  # noqa: E402


class FakeSrc:
    def __init__(self, id_):
        self.id = id_

    def __eq__(self, other):
        return self.id == other.id


@harness(("C14", "C13"))
def array_fragments_merge_only_within_a_device():
    """dispatcher.detect_array_fragment: a packet is taken for the second half of the previous
    array only if it has the same source device, code and verb I, and follows within 3 s."""
    a, b = sym_dev("this_src"), sym_dev("prev_src")
    code_t = sym_choice("this_code", ["000A", "22C9", "2309"])
    code_p = sym_choice("prev_code", ["000A", "22C9", "2309"])
    gap = sym_int("gap_us", -10 ** 7, 10 ** 7)
    this = new_object(Message, code=code_t, verb=sym_choice("this_verb", [" I", "RP"]), src=FakeSrc(a), dtm=T0 + td(microseconds=1) * gap)
    prev = new_object(Message, code=code_p, verb=" I", src=FakeSrc(b), dtm=T0, _pkt=new_object(Frame, _has_array_=sym_bool("prev_is_array")))
    o = outcome(D.detect_array_fragment, this, prev)
    check(o.ok, "detect_array_fragment does not raise")
    check(Implies(o.value, a == b), "a packet from another device is never merged into an array")
    check(Implies(o.value, And(code_t == code_p, this.verb == " I", gap < 3 * 10 ** 6)), "only the same code, verb I, within 3 s")


class FakePktP(FakePkt):
    def __init__(self, lifespan, ctx, payload):
        self._lifespan, self._ctx, self.payload = lifespan, ctx, payload


@harness("C14")
def deleting_a_message_deletes_only_it():
    """_MessageDB._delete_msg(old): a device's newest-by-code slot holding a *different* (newer)
    message is left alone; the slot holding `old` is emptied."""
    code = "30C9"
    old = new_object(Message, code=code, verb=" I", dst=FakeSrc("--:------"), _pkt=FakePktP(td(hours=1), "01", "0107D0"))
    newer = new_object(Message, code=code, verb=" I", dst=FakeSrc("--:------"), _pkt=FakePktP(td(hours=1), "01", "010834"))
    holds_old = sym_bool("slot_still_holds_the_old_message")
    dev = new_object(Device, _gwy=FakeGwy(T0), _msgs_={code: old if holds_old else newer}, _msgz_={code: {" I": {"01": old}}})
    old.src = newer.src = dev
    o = outcome(dev._delete_msg, old)
    check(o.ok, "_delete_msg does not raise")
    if holds_old:
        check(code not in dev._msgs_, "the deleted message is gone from the newest-by-code slot")
    else:
        check(dev._msgs_.get(code) is newer, "a newer message for the same code is not deleted along with an old one")
    check("01" not in dev._msgz_[code][" I"], "the deleted message is gone from its (code, verb, context) slot")


# ---- "the most recently received": which message a view reads --------------------------------------------------
def value_of_msg_callsite(self, msg, key=None, zone_idx=None, domain_id=None):
    """_msg_value_msg, recording call-site contract: hands back the message it was given (its own
    contract is read_rule above)."""
    return msg


@harness("C14", cases=[("codes",), ("verb",), ("code",)], stubs={EB._MessageDB._msg_value_msg: value_of_msg_callsite})
def newest_message_is_the_one_read(how):
    """_msg_value_code: asked for a tuple of codes (Zone.setpoint reads 2309 and 2349, the modulation
    level 3EF0 and 3EF1), for a code and verb (every context's message of that kind) or for one code,
    it reads the MOST RECENTLY RECEIVED of the candidate messages -- whatever the order in which the
    slots of the store were first created -- and nothing when there is none."""
    codes = ["2309", "2349", "30C9"]
    n = 3
    stamp = [sym_int(f"received_at_{i}", 0, 10 ** 9) for i in range(n)]
    assume(And(stamp[0] != stamp[1], stamp[0] != stamp[2], stamp[1] != stamp[2]))
    msgs_, msgz_ = {}, {}
    if how == "verb":
        held = []
        for i in range(n):  # one code and verb, three contexts, slots created in this order
            if sym_bool(f"context_{i}_has_a_message"):
                m = new_object(Message, code="2309", verb=" I", dtm=stamp[i], _ghost_name=f"m{i}")
                msgz_.setdefault("2309", {}).setdefault(" I", {})[f"0{i}"] = m
                held.append(m)
        ent = new_object(EB._MessageDB, id="01:145038", _gwy=FakeGwy(None), _msgs_=msgs_, _msgz_=msgz_)
        o = outcome(ent._msg_value_code, "2309", verb=" I")
        cands = held
    else:
        order = sym_choice("slots_created_in_order", ["012", "021", "102", "120", "201", "210"])
        held = {}
        for ch in order:
            i = int(ch)
            if sym_bool(f"code_{codes[i]}_has_a_message"):
                held[i] = new_object(Message, code=codes[i], verb=" I", dtm=stamp[i], _ghost_name=f"m{i}")
                msgs_[codes[i]] = held[i]
        ent = new_object(EB._MessageDB, id="01:145038", _gwy=FakeGwy(None), _msgs_=msgs_, _msgz_=msgz_)
        if how == "codes":
            o = outcome(ent._msg_value_code, ("2309", "2349"))
            cands = [held[i] for i in (0, 1) if i in held]
        else:
            o = outcome(ent._msg_value_code, "2349")
            cands = [held[1]] if 1 in held else []
    check(o.ok, "_msg_value_code does not raise")
    if not o.ok:
        return
    if not cands:
        check(o.value is None, "with no candidate message nothing is read")
        return
    check(any(o.value is m for m in cands), "the message read is one of the candidates (right code / verb)")
    if any(o.value is m for m in cands):
        for m in cands:
            check(o.value.dtm >= m.dtm, "the message read is the most recently received of the candidates")
