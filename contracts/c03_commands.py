"""C03 -- command builders emit valid frames of the advertised verb/code that decode back.

Every entry of command.CODE_API_MAP (read from the tree) is a case: its arguments are symbolic over
the documented domain; the constructor, Command.__init__, the schema regex check and the parser are
executed from the current ASTs.
"""
import re
from datetime import datetime as dt

from pyvc.api import *  # noqa: F401,F403
from pyvc.harness import harness
from ramses_tx import exceptions as exc
from ramses_tx import helpers as H
from ramses_tx import packet as _packet
from ramses_tx.command import CODE_API_MAP, Command
from ramses_tx.message import Message
from ramses_tx.packet import Packet
from ramses_tx.ramses import CODES_SCHEMA

from .c01_reception import pkt_lifespan_may_raise
from .c05_payloads import hex_to_str_callsite

CTL, OTB, FAN, REM, SEN, TRV, BDR = "01:145038", "10:048122", "32:155617", "37:171871", "03:123456", "04:111111", "13:049798"
NOW = dt(2023, 11, 30, 13, 15)


def grid_temp(name, lo, hi):
    return sym_int(name, lo, hi) / 100


def zone_idx(name="zone_idx", hi=15):
    return sym_int(name, 0, hi)


def when(name, secs=False):
    """A valid date-time (minute resolution) incl. leap days."""
    y, mo, d = sym_int(name + "_y", 2000, 2099), sym_int(name + "_mo", 1, 12), sym_int(name + "_d", 1, 31)
    t = outcome(dt, y, mo, d, sym_int(name + "_h", 0, 23), sym_int(name + "_mi", 0, 59), sym_int(name + "_s", 0, 59) if secs else 0)
    assume(t.ok)
    return t.value


# key -> (positional args, keyword args, expected decoded items) ; evaluated inside the harness
def args_for(key):
    verb, code = key.split("|")
    z = None
    if key == "RP|3EF1":
        return (BDR, CTL, sym_int("mod", 0, 200) / 200, sym_int("act", 0, 65535)), {"cycle_countdown": sym_int("cyc", 0, 65535)}, {}
    if key == " I|3EF0":
        m = sym_int("mod", 0, 200) / 200
        return (BDR, m), {}, {}
    if key in (" I|1FC9", " W|1FC9"):
        if verb == " I":
            k = sym_choice("offer_to", ["self", "broadcast"])
            if k == "broadcast":  # an offer addressed to 63:262142, with an OEM code
                return (" I", SEN, ["30C9", "2309"], "63:262142"), {"oem_code": "6C"}, {"_n_bindings": 4}
            return (" I", SEN, ["30C9", "2309"]), {}, {"_n_bindings": 3}
        return (" W", CTL, ["30C9"], SEN), {"idx": "00"}, {}
    if key == " W|22F7":
        return (FAN,), {"bypass_position": sym_int("pos", 0, 200) / 200, "src_id": REM}, {}
    if key == " I|1298":
        return (SEN, sym_int("co2", 0, 16383)), {}, {}
    if key in ("RQ|1F41", "RQ|10A0", "RQ|1260", "RQ|0100", "RQ|0006", "RQ|2E04", "RQ|313F"):
        return (CTL,), {}, {}
    if key == " W|1F41":
        return (CTL,), {"mode": sym_choice("mode", [0, 1, 2]), "active": sym_bool("active")}, {}
    if key == " W|10A0":
        sp = grid_temp("sp", 3000, 8500)
        return (CTL,), {"setpoint": sp, "overrun": sym_int("overrun", 0, 10), "differential": grid_temp("diff", 100, 1000)}, {"setpoint": sp}
    if key == " I|1260":
        t = grid_temp("t", 0, 9900)
        return ("07:045960", t), {}, {"temperature": t}
    if key == " I|22F1":
        return (FAN, sym_choice("fan_mode", [0, 1, 2, 3, 4])), {"src_id": REM}, {}
    if key == " W|2411":
        return (FAN, "3F", sym_int("value", 0, 255)), {"src_id": REM}, {}
    if key == " I|12A0":
        return (SEN, sym_int("rh", 0, 100) / 100), {}, {}
    if key == "RQ|1030":
        z = zone_idx()
        return (CTL, z), {}, {}
    if key == " W|1030":
        z = zone_idx()
        return (CTL, z), {"max_flow_setpoint": sym_int("maxf", 0, 99), "min_flow_setpoint": sym_int("minf", 0, 50),
                          "valve_run_time": sym_int("vrt", 0, 240), "pump_run_time": sym_int("prt", 0, 99)}, {}
    if key == "RQ|3220":
        return (OTB, sym_choice("msg_id", [0, 3, 5, 17, 25, 56, 115])), {}, {}  # all 256 ids: opentherm_ids_exhaustive (native)
    if key == " I|1290":
        t = grid_temp("t", -4000, 6000)
        return (SEN, t), {}, {"temperature": t}
    if key == " I|2E10":
        return (SEN, sym_bool("present")), {}, {}
    if key == "RQ|0008":
        return (BDR,), {}, {}
    if key == "RQ|0404":
        z = zone_idx()
        total, frag = sym_int("total", 0, 8), sym_int("frag", 1, 8)
        assume(Or(And(frag == 1, total == 0), And(frag > 1, frag <= total)))  # the documented protocol
        return (CTL, z, frag, total), {}, {}
    if key == " W|0404":
        z = zone_idx()
        n = 4
        cnt = sym_int("cnt", 1, 8)
        return (CTL, z, sym_int("frag", 1, cnt), cnt, sym_str("fragment", 2 * n, "HEX")), {}, {}
    if key == " I|30C9":
        t = grid_temp("t", -2000, 6000)
        return (SEN, t), {}, {"temperature": t}
    if key == "RQ|0418":
        return (CTL, sym_int("log_idx", 0, 63)), {}, {}
    if key == " W|2E04":
        return (CTL, sym_choice("system_mode", [0, 1, 2, 3, 4, 5, 6, 7])), {}, {}
    if key == " W|313F":
        t = when("t", secs=True)
        return (CTL, t), {"is_dst": sym_bool("is_dst")}, {"datetime": t.isoformat(timespec="seconds")}
    if key == "RQ|1100":
        return (BDR,), {}, {}
    if key == " W|1100":
        return (CTL, "FC"), {"cycle_rate": sym_choice("cycle_rate", [3, 6, 9, 12]), "min_on_time": sym_int("on", 1, 5), "min_off_time": sym_int("off", 1, 5)}, {}
    if key == " I|0002":
        t = grid_temp("t", -4000, 6000)
        return ("17:145039", t), {}, {"temperature": t}
    if key in ("RQ|000A", "RQ|2349", "RQ|0004", "RQ|2309", "RQ|30C9", "RQ|12B0"):
        z = zone_idx()
        return (CTL, z), {}, {}
    if key == " W|000A":
        z = zone_idx()
        lo, hi = grid_temp("min", 500, 2100), grid_temp("max", 2100, 3500)
        return (CTL, z), {"min_temp": lo, "max_temp": hi, "local_override": sym_bool("lo"), "openwindow_function": sym_bool("ow"), "multiroom_mode": sym_bool("mr")}, {"min_temp": lo, "max_temp": hi}
    if key == " W|2349":
        z = zone_idx()
        sp = grid_temp("sp", 500, 3500)
        kind = sym_choice("mode_kind", ["plain", "countdown", "temporary"])
        if kind == "countdown":
            d = sym_int("duration", 0, 1215)
            return (CTL, z), {"mode": 3, "setpoint": sp, "duration": d}, {"setpoint": sp, "duration": d}
        if kind == "temporary":
            return (CTL, z), {"mode": 4, "setpoint": sp, "until": when("until")}, {"setpoint": sp}
        return (CTL, z), {"mode": sym_choice("mode", [0, 1, 2]), "setpoint": sp}, {"setpoint": sp}
    if key == " W|0004":
        z = zone_idx()
        return (CTL, z, sym_str("name", 5, "print")), {}, {}
    if key == " W|2309":
        z = zone_idx()
        sp = grid_temp("sp", 500, 3500)
        return (CTL, z, sp), {}, {"setpoint": sp, "zone_idx": f"{z:02X}"}
    raise KeyError(key)


KEYS = sorted(CODE_API_MAP)


# ---- call-site contracts of the temperature codec (its round trip is proved under C04) -----------------
def hex_from_temp_callsite(value):
    """For a float on the wire grid: some 4-hex word w with hex_to_temp(w) == value (C04:
    hex_from_temp_grid + hex_to_temp_contract).  Anything else: the real function."""
    if not isinstance(value, float):
        return real(H.hex_from_temp, value)
    w = sym_str("temp_word_" + str(len(ghost("temp_words"))), 4, "HEX")
    assume(And(w != "7FFF", w != "7EFF", w != "31FF"))
    ghost("temp_words").append((w, value))
    return w


def hex_to_temp_callsite(word):
    for w, v in ghost("temp_words"):
        if len(w) == len(word) and is_concrete(w == word) and w == word:
            return v
    return real(H.hex_to_temp, word)


TEMP_CODEC = {H.hex_from_temp: hex_from_temp_callsite, H.hex_to_temp: hex_to_temp_callsite}


def decode_cmd(frame):
    return Message(Packet.from_port(NOW, "000 " + frame))


MODULAR_KEYS = (" W|000A", " W|10A0", " W|2349")  # float-heavy: the temperature codec by its C04 contract


def _constructor_contract(key):
    verb, code = key.split("|")
    args, kwargs, expect = args_for(key)
    c = outcome(CODE_API_MAP[key], *args, **kwargs)
    check(c.ok, "arguments in the documented domain are accepted")
    if not c.ok:
        return
    cmd = c.value
    check(And(cmd.verb == verb, cmd.code == code), "the command has the verb and code it is registered under")
    rx = CODES_SCHEMA[code].get(verb)
    check(rx is not None and re.compile(rx).match(cmd.payload) is not None, "the payload matches the schema regex of its verb/code")
    check(cmd._len * 2 == len(cmd.payload) and int(cmd.len_) == cmd._len, "the length field is the payload's byte count")
    m = outcome(decode_cmd, str(cmd))
    check(m.ok, "the library's own decoder accepts the frame")
    if m.ok and "_n_bindings" in expect:
        check(isinstance(m.value.payload, dict) and len(m.value.payload.get("bindings", [])) == expect["_n_bindings"],
              "the decoded offer lists every code offered (plus the OEM entry and the closing 1FC9)")
    elif m.ok and isinstance(m.value.payload, dict):
        for k, v in expect.items():
            check(Or(*[x == v for x in m.value.payload.values() if isinstance(x, (int, float, str)) and not isinstance(x, bool)]),
                  "the decoded payload carries the value passed in")


@harness("C03", cases=[(k,) for k in KEYS if k not in MODULAR_KEYS], budget_s=300, subst={H.hex_to_str: hex_to_str_callsite})
def constructor_contract(key):
    """The constructor registered under verb|code, for arguments in its documented domain: builds a
    command of that verb and code, whose payload the schema regex accepts, which the library's
    own decoder accepts, and whose decoded payload carries the values passed in."""
    _constructor_contract(key)


@harness("C03", cases=[(k,) for k in MODULAR_KEYS], budget_s=300, subst={H.hex_to_str: hex_to_str_callsite, **TEMP_CODEC})
def constructor_contract_modular(key):
    """The same contract, with hex_from_temp / hex_to_temp replaced by their C04 round-trip contract."""
    _constructor_contract(key)


IDX_KEYS = [k for k in KEYS if k in ("RQ|1030", " W|1030", "RQ|000A", " W|000A", "RQ|2349", " W|2349", "RQ|0004", " W|0004",
                                     "RQ|2309", " W|2309", "RQ|30C9", "RQ|12B0", "RQ|0404")]


@harness("C03", cases=[(k,) for k in IDX_KEYS])
def out_of_domain_index_is_refused(key):
    """A zone index outside 0..15 (and not a domain id) is refused with an error: never a frame
    that the library's own schema rejects."""
    verb, code = key.split("|")
    z = sym_int("zone_idx", 16, 255)
    assume(And(z != 0xF9, z != 0xFA, z != 0xFC))
    extra = {"RQ|0404": (1, 1), " W|0004": ("name",), " W|2309": (21.5,)}.get(key, ())
    c = outcome(CODE_API_MAP[key], CTL, z, *extra)
    if c.ok:
        check(re.compile(CODES_SCHEMA[code][verb]).match(c.value.payload) is not None, "an accepted index never yields a payload the schema rejects")
    check(c.raised, "a zone index outside the domain is refused")


from pyvc.harness import native  # noqa: E402


@native("C03")
def opentherm_ids_exhaustive(seed, n):
    """get_opentherm_data for every msg-id 0..255 (the whole domain, exhaustively, natively: the
    parity computation is outside the solver's reach): RQ|3220, payload within the schema,
    and the library's own decoder accepts it."""
    import logging
    logging.disable(logging.CRITICAL)
    fails, evals = [], 0
    try:
        for mid in range(256):
            evals += 1
            try:
                cmd = Command.get_opentherm_data(OTB, mid)
                ok = cmd.verb == "RQ" and cmd.code == "3220" and re.match(CODES_SCHEMA["3220"]["RQ"], cmd.payload) is not None
                decode_cmd(str(cmd))
            except Exception as e:  # noqa: BLE001
                ok = False
                why = f"{type(e).__name__}: {e}"
            else:
                why = "verb/code/regex"
            if not ok:
                fails.append({"label": "get_opentherm_data(msg_id) builds an RQ|3220 the decoder accepts", "witness": {"seed": seed, "msg_id": mid, "why": why}})
    finally:
        logging.disable(logging.NOTSET)
    return {"evaluations": evals, "failures": fails}


# ---- mode x until x duration: refused, or faithful -------------------------------------------------------
SYS_NAMES = {"00": "auto", "01": "heat_off", "02": "eco_boost", "03": "away", "04": "day_off", "05": "day_off_eco", "06": "auto_with_reset", "07": "custom"}
ZON_NAMES = {"00": "follow_schedule", "01": "advanced_override", "02": "permanent_override", "03": "countdown_override", "04": "temporary_override"}


def spelled(name, table):
    """A mode in any of the three spellings the constructors take: int, two hex digits, the name."""
    code = sym_choice(name, sorted(table))
    how = sym_choice(name + "_spelled_as", ["int", "hex", "name"])
    return code, {"int": int(code, 16), "hex": code, "name": table[code]}[how]


def maybe_until(name):
    return when(name) if sym_bool(name + "_given") else None


def until_text(t):
    return t.isoformat(timespec="seconds")


@harness("C03", cases=[(" W|2E04",), (" W|2349",), (" W|1F41",)], budget_s=600, subst={H.hex_to_str: hex_to_str_callsite, **TEMP_CODEC})
def mode_arguments_are_refused_or_faithful(key):
    """set_system_mode / set_zone_mode / set_dhw_mode for EVERY combination of mode (spelled as an int, as
    hex digits or by name, or left out), until (given or not), duration (left out, 0, or any minutes) and
    setpoint / active (given or not) -- inside and outside the documented domain: the call is refused with an
    error, or it yields a W of the registered code that the library's own decoder accepts and that decodes to
    the mode, the until, the duration and the setpoint / active that were asked for."""
    verb, code = key.split("|")
    until = maybe_until("until")
    if key == " W|2E04":
        want, mode = spelled("system_mode", SYS_NAMES)
        c = outcome(CODE_API_MAP[key], CTL, mode, until=until)
        duration, names = None, SYS_NAMES
        target_key = target = None
    else:
        if sym_bool("mode_given"):
            want, mode = spelled("mode", ZON_NAMES)
        else:
            want = mode = None
        dk = sym_choice("duration_kind", ["none", "zero", "minutes"])
        duration = {"none": None, "zero": 0}.get(dk, sym_int("duration", 1, 1215) if dk == "minutes" else None)
        names = ZON_NAMES
        if key == " W|2349":
            target_key, target = "setpoint", (grid_temp("sp", 500, 3500) if sym_bool("setpoint_given") else None)
            c = outcome(CODE_API_MAP[key], CTL, zone_idx(), mode=mode, setpoint=target, until=until, duration=duration)
        else:
            target_key, target = "active", (sym_bool("active") if sym_bool("active_given") else None)
            c = outcome(CODE_API_MAP[key], CTL, mode=mode, active=target, until=until, duration=duration)
    if not c.ok:
        cover("refused")
        return
    cover("accepted")
    cmd = c.value
    check(And(cmd.verb == verb, cmd.code == code), "the command has the verb and code it is registered under")
    m = outcome(decode_cmd, str(cmd))
    check(m.ok, "whatever arguments were accepted, the library's own decoder accepts the frame")
    if not m.ok:
        return
    p = m.value.payload
    if want is not None:
        got = p.get("system_mode" if key == " W|2E04" else "mode")
        if key != " W|2E04" and want == "04" and until is None:
            check(got in (names["04"], names["01"]), "a temporary override without an until is sent as that or as an advanced override")
        else:
            check(got == names[want], "the decoded mode is the mode asked for")
    if until is not None:
        check(p.get("until") == until_text(until), "an until that was accepted is the until on the wire")
    else:
        check(p.get("until") is None, "no until was asked for: none is on the wire")
    if duration is not None:
        check(p.get("duration") == duration, "a duration that was accepted is the duration on the wire")
    else:
        check(p.get("duration") is None, "no duration was asked for: none is on the wire")
    if target is not None and target_key is not None and p.get("mode") != names["00"]:
        check(p.get(target_key) == target, "the setpoint / active state that was accepted is the one on the wire")


def kf_dhw_countdown(inp):
    """set_dhw_mode in countdown mode (mode 03, however spelled; or no mode but a duration): the constructor
    writes the minutes, the 1F41 schema / parser only admit FFFFFF there."""
    m, given, dk = inp.get("mode"), inp.get("mode_given"), inp.get("duration_kind")
    return Or(False if m is None else m == "03", False if given is None or dk is None else And(Not(given), dk == "minutes"))


def kf_dhw_temporary_without_until(inp):
    """set_dhw_mode in temporary mode (04) without an until: _normalise_until means to fall back to the
    advanced override but its assignment is local, so a 6-byte frame with mode 04 goes out."""
    m, u = inp.get("mode"), inp.get("until_given")
    return False if m is None or u is None else And(m == "04", Not(u))
