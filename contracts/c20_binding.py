"""C20 -- binding handshakes (partial): every wait step ends with the message or a binding error and
leaves the device no longer binding; the four handshake phases are mutually exclusive and agree
between the command constructor, the packet parser and the FSM's classifier.

Functions under contract: BindStateBase._wait_for_fut_result, _handle_wait_timer_expired,
_set_context_state (+ the _DevIsWaitingForMsg override), BindStateBase.is_phase, Command.put_bind,
parser_1fc9 (phase).  asyncio.wait_for / shield / Future are typestate contracts (CPython >= 3.11:
on timeout wait_for cancels the awaited future and raises TimeoutError).
Not decided: interleavings of duplicates / echoes / third-party traffic, the 3 s / 5 s timing.
"""
import asyncio

from pyvc.api import *  # noqa: F401,F403
from pyvc.harness import harness
from ramses_rf import binding_fsm as B
from ramses_rf import exceptions as rf_exc
from ramses_tx.command import Command
from ramses_tx.message import Message
from ramses_tx.packet import Packet

from .c08_discipline import FakeFuture


class Shield(FakeFuture):
    """asyncio.shield(inner): an outer future; cancelling it does not cancel inner."""

    def __init__(self, inner):
        self.inner = inner
        self.state = "pending"
        self.value = None


def shield_stub(fut):
    return Shield(fut)


async def wait_for_stub(fut, timeout):
    """asyncio.wait_for by contract: the awaited future completes within the timeout (result
    returned / exception raised), or the timeout passes: the awaited future is cancelled and
    TimeoutError is raised."""
    inner = fut.inner if isinstance(fut, Shield) else fut
    if inner.state == "result":
        return inner.value
    if inner.state == "exception":
        raise inner.value
    if inner.state == "cancelled":
        raise asyncio.CancelledError()
    fut.cancel()  # (only the outer future if shielded)
    raise TimeoutError()


class FakeBindContext:
    def __init__(self):
        self.state = None
        self.transitions = []
        self._loop = None

    def set_state(self, state_class, result=None):
        self.transitions.append(state_class)
        self.state = state_class

    def __repr__(self):
        return "ctx"


class FakeHandle:
    def __init__(self):
        self.cancelled = False

    def cancel(self):
        self.cancelled = True


class NextState:
    pass


WAITING = [B.RespIsWaitingForOffer, B.RespIsWaitingForConfirm, B.SuppIsWaitingForAccept] if hasattr(B, "SuppIsWaitingForAccept") else [B.RespIsWaitingForOffer]
WAITING = [c for c in vars(B).values() if isinstance(c, type) and issubclass(c, B.BindStateBase)
           and c.__name__.startswith(("Resp", "Supp")) and "Wait" in c.__name__ or (isinstance(c, type) and c.__name__ in ("RespHasSentAccept", "SuppSendOfferWaitForAccept"))]


@harness("C20", cases=[(c.__name__,) for c in WAITING], stubs={asyncio.wait_for: wait_for_stub, asyncio.shield: shield_stub})
def wait_step_ends_cleanly(state_name):
    """_wait_for_fut_result on any waiting state, whatever happened before the wait ends (the
    message arrived / nothing arrived / the state's own 5 s timer already fired): it returns
    the message and moves to the next state, or raises a binding error with the context in
    DevHasFailedBinding -- never another exception, never still 'binding'."""
    cls = getattr(B, state_name)
    ctx = FakeBindContext()
    fut = FakeFuture()
    st = new_object(cls, _context=ctx, _loop=None, _fut=fut, _timer_handle=FakeHandle(), _next_ctx_state=NextState, _cmds_sent=0)
    ctx.state = cls
    msg = opaque("msg")
    before = sym_choice("before_the_wait_ends", ["message arrived", "nothing arrived", "own timer fired"])
    if before == "message arrived":
        fut.set_result(msg)
    elif before == "own timer fired":
        st._handle_wait_timer_expired(5.1)
    o = outcome(st._wait_for_fut_result, sym_choice("timeout", [3, 5]))
    if before == "message arrived":
        check(o.ok and o.value is msg, "a wait whose message arrived returns that message")
        check(ctx.state is NextState, "and the context moves to the next state")
    else:
        check(o.raised_in(rf_exc.BindingError), "a wait that fails raises an error of the binding-error family")
        check(ctx.state is B.DevHasFailedBinding, "after a failed wait the context is in DevHasFailedBinding (no longer binding)")
    check(len(ctx.transitions) == 1, "exactly one state transition per wait")
    if issubclass(cls, B._DevIsWaitingForMsg):
        check(st._timer_handle.cancelled, "the state's own wait timer is cancelled when the state is left (nothing is left behind for the next attempt)")


PHASES = [B.BindPhase.TENDER, B.BindPhase.ACCEPT, B.BindPhase.AFFIRM, B.BindPhase.RATIFY]
SUPP, RESP = "03:123456", "01:145038"


def bind_frames():
    return {
        B.BindPhase.TENDER: Command.put_bind(" I", SUPP, ["30C9", "2309"]),
        B.BindPhase.ACCEPT: Command.put_bind(" W", RESP, ["30C9"], SUPP, idx="00"),
        B.BindPhase.AFFIRM: Command.put_bind(" I", SUPP, ["30C9"], RESP),
    }


@harness("C20")
def phases_agree():
    """What Command.put_bind builds for a phase is classified as exactly that phase by
    BindStateBase.is_phase (on the command and on the received packet) and by parser_1fc9."""
    for phase, cmd in bind_frames().items():
        pkt = Packet.from_port(__import__("datetime").datetime(2023, 11, 30), "000 " + str(cmd))
        msg = Message(pkt)
        for p in PHASES:
            check(B.BindStateBase.is_phase(cmd, p) == (p == phase), "is_phase(command) holds for exactly the phase the command was built for")
            check(B.BindStateBase.is_phase(pkt, p) == (p == phase), "is_phase(packet) holds for exactly that phase too")
        check(msg.payload["phase"] == str(phase), "the decoder reports the same phase")


@harness("C20", cases=[(v,) for v in (" I", " W", "RQ", "RP")])
def phases_are_exclusive(verb):
    """For any 1FC9 / 10E0 frame (any address shape) at most one of the four phases holds."""
    from .c02_frames import sym_dev
    src, dst = sym_dev("src"), sym_dev("dst")
    shape = sym_choice("shape", ["to_self", "to_other", "broadcast"])
    code = sym_choice("code", ["1FC9", "10E0"])
    if shape == "to_self":
        addrs = f"{src} --:------ {src}"
    elif shape == "broadcast":
        addrs = f"{src} 63:262142 --:------"
    else:
        assume(dst != src)
        addrs = f"{src} {dst} --:------"
    f = outcome(Command, f"{verb} --- {addrs} {code} 006 0030C9123456")
    assume(f.ok)
    n = 0
    for p in PHASES:
        if B.BindStateBase.is_phase(f.value, p):
            n += 1
    check(n <= 1, "at most one handshake phase matches a frame")


class RecordingState:
    def __init__(self):
        self.got = []

    def rcvd_msg(self, msg):
        self.got.append(msg)

    def send_cmd(self, cmd):
        self.got.append(cmd)


class FakeBindMsg:
    def __init__(self, code, name):
        self.code = code
        self.name = name

    def __eq__(self, other):
        return self.code == other.code  # (repeats of a frame compare equal)


@harness("C20")
def context_passes_every_binding_packet_on():
    """BindContextBase.rcvd_msg / sent_cmd hand every 1FC9 / 10E0 message to the current state --
    repeats included, whatever was received before (RF devices send each frame three times;
    a retry sends byte-identical frames) -- and nothing else."""
    st = RecordingState()
    ctx = new_object(B.BindContext, _state=st, _dev=opaque("dev"), _is_respondent=None)
    code = sym_choice("code", ["1FC9", "10E0", "30C9"])
    m1, m2, m3 = FakeBindMsg(code, "first"), FakeBindMsg(code, "repeat"), FakeBindMsg(code, "again, after a failed attempt")
    for m in (m1, m2, m3):
        o = outcome(ctx.rcvd_msg, m)
        check(o.ok, "rcvd_msg does not raise")
    if code == "30C9":
        check(st.got == [], "a packet that is not part of a handshake is not passed on")
    else:
        check(len(st.got) == 3 and st.got[0] is m1 and st.got[1] is m2 and st.got[2] is m3, "every handshake packet reaches the state, repeats too, in order")


# ---- repeats that arrive before the waiter has run ---------------------------------------------------------------
class FakePktOfPhase:
    """A received binding packet that the real BindStateBase.is_phase files under the given phase (what real
    frames it files where is decided by phases_agree / phases_are_exclusive); 'unrelated': under none."""

    def __init__(self, phase):
        self.phase = phase
        self.src = "03:123456"
        self.code = "10E0" if phase == B.BindPhase.RATIFY else ("30C9" if phase == "unrelated" else "1FC9")
        self.verb = " W" if phase == B.BindPhase.ACCEPT else " I"
        self.dst = self.src if phase == B.BindPhase.TENDER else "01:145038"

    def __eq__(self, other):
        return isinstance(other, FakePktOfPhase) and self.phase == other.phase


class FakeMsgOfPhase:
    def __init__(self, phase, name):
        self._pkt = FakePktOfPhase(phase)
        self.name = name


RECEIVING = sorted({c.__name__ for c in vars(B).values() if isinstance(c, type) and issubclass(c, B.BindStateBase)
                    and c.__name__.startswith(("Resp", "Supp")) and c not in B._IS_NOT_BINDING_STATES})  # the states a packet can reach


@harness("C20", cases=[(n,) for n in RECEIVING])
def repeats_before_the_waiter_runs_are_harmless(state_name):
    """rcvd_msg of every concrete binding state, called again with a repeat of the frame (RF devices send each frame
    three times; a serial read can hold all three, which are then dispatched back to back, before the coroutine
    that awaits the state's future has run): no call raises, and the future keeps the FIRST message."""
    cls = getattr(B, state_name)
    ctx = FakeBindContext()
    fut = FakeFuture()
    phase = getattr(cls, "_expected_pkt_phase", None)
    st = new_object(cls, _context=ctx, _loop=None, _fut=fut, _timer_handle=FakeHandle(), _next_ctx_state=NextState, _cmds_sent=1,
                    _cmd=FakePktOfPhase(phase))
    ctx.state = cls
    first, repeat, other = FakeMsgOfPhase(phase, "first"), FakeMsgOfPhase(phase, "repeat"), FakeMsgOfPhase("unrelated", "other")
    seq = sym_choice("arrive_back_to_back", ["first, repeat", "first, repeat, repeat", "other, first, repeat", "first, other, repeat"])
    msgs = {"first": first, "repeat": repeat, "other": other}
    for name in seq.split(", "):
        o = outcome(st.rcvd_msg, msgs[name])
        check(o.ok, "a frame that arrives before the waiter has run -- a repeat included -- is taken without an exception")
    if fut.done():
        cover("the state took a message")
        check(And(fut.state == "result", fut.value is first), "the state's future holds the first matching message; repeats do not disturb it")
