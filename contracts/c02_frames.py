"""C02 -- frame text round-trips: parse then print is the identity (Frame, Command, Packet, CLI, log)."""
import re

from pyvc.api import *  # noqa: F401,F403
from pyvc.harness import harness
from ramses_tx import exceptions as exc
from ramses_tx.address import pkt_addrs
from ramses_tx.command import Command
from ramses_tx.const import COMMAND_REGEX
from ramses_tx.frame import Frame
from ramses_tx import packet as _packet
from ramses_tx.packet import Packet

NON = "--:------"
ALL = "63:262142"
_DEV = re.compile(r"[0-9]{2}:[0-9]{6}")


# ---- spec: what a structurally valid frame is (from the property statement) ------------
def addr_ok(a):
    return Or(a == NON, _DEV.fullmatch(a) is not None)


def addr_set_ok(a0, a1, a2):
    """The three legal address-set shapes."""
    s1 = And(a0 != NON, a0 != ALL, a1 == NON, a2 != NON)
    s2 = And(a0 != NON, a0 != ALL, a1 != NON, a1 != a0, a2 == NON)
    s3 = And(a2 != NON, a2 != ALL, a0 == NON, a1 == NON)
    return Or(s1, s2, s3)


LENS = list(range(1, 49))


@harness("C02", cases=[(n,) for n in LENS], quick=lambda n: n in (1, 2, 3, 8, 24, 47, 48))
def frame_parse_print(n):
    """For every string s accepted by COMMAND_REGEX (payload of n bytes): Frame(s) succeeds
    iff the address set is one of the legal shapes and the length field equals n; then
    the fields are the columns of s and repr(Frame(s)) == s."""
    s = sym_str("s", 46 + 2 * n)
    assume(COMMAND_REGEX.fullmatch(s) is not None)
    a0, a1, a2 = s[7:16], s[17:26], s[27:36]
    o = outcome(Frame, s)
    good = And(addr_ok(a0), addr_ok(a1), addr_ok(a2), addr_set_ok(a0, a1, a2), int(s[42:45]) == n)
    if good:
        cover("accepted")
        check(o.ok, "a structurally valid frame is accepted")
        f = o.value
        check(repr(f) == s, "repr(Frame(s)) == s")
        check(And(f.verb == s[0:2], f.seqn == s[3:6], f.code == s[37:41], f.len_ == s[42:45], f.payload == s[46:]),
              "verb, seqn, code, len and payload are the columns of s")
        check(f._len == n, "_len is the payload's byte count")
        check(And(repr(f._addrs[0]) == a0, repr(f._addrs[1]) == a1, repr(f._addrs[2]) == a2), "the three address fields are preserved")
        v = outcome(f._validate, strict_checking=False)
        check(v.ok, "the fixed-column re-validation accepts what __init__ accepted")
    else:
        cover("rejected")
        check(o.raised_in(exc.PacketInvalid), "a frame with a bad address set or length field is refused with PacketInvalid")


# ---- builders for symbolic, structurally valid fields -------------------------------
def sym_dev(name):
    """A symbolic device id dd:dddddd (ASCII digits)."""
    return sym_str(name + "_t", 2, "digit") + ":" + sym_str(name + "_n", 6, "digit")


def sym_addr_set(shape):
    """One of the three legal address-set shapes, with symbolic ids."""
    if shape == 1:
        a0, a2 = sym_dev("a0"), sym_dev("a2")
        assume(a0 != ALL)
        return a0, NON, a2
    if shape == 2:
        a0, a1 = sym_dev("a0"), sym_dev("a1")
        assume(a0 != ALL)
        assume(a1 != a0)
        return a0, a1, NON
    a2 = sym_dev("a2")
    assume(a2 != ALL)
    return NON, NON, a2


VERBS = (" I", "RP", "RQ", " W")


def sym_seqn():
    k = sym_choice("seqn_kind", ["---", "int", "str"])
    if k == "---":
        return "---", "---"
    if k == "int":
        n = sym_int("seqn", 0, 255)
        return n, f"{n:03d}"
    s = sym_str("seqn_s", 3, "digit")
    return s, s


@harness("C02", cases=[(shape, n) for shape in (1, 2, 3) for n in (1, 2, 24, 48)], quick=lambda shape, n: n in (1, 48))
def command_from_attrs_contract(shape, n):
    """Command._from_attrs assembles exactly the field-wise frame; the length field is the
    payload's byte count; the printed command parses back to an equal command."""
    verb = sym_choice("verb", list(VERBS) + ["I", "W"])
    seqn_arg, seqn_txt = sym_seqn()
    a0, a1, a2 = sym_addr_set(shape)
    code = sym_str("code", 4, "HEX")
    payload = sym_str("payload", 2 * n, "HEX")
    o = outcome(Command._from_attrs, verb, code, payload, addr0=a0, addr1=a1, addr2=a2, seqn=seqn_arg)
    check(o.ok, "a valid attribute set yields a command")
    cmd = o.value
    v2 = " I" if verb == "I" else " W" if verb == "W" else verb
    expect = f"{v2} {seqn_txt} {a0} {a1} {a2} {code} {n:03d} {payload}"
    check(str(cmd) == expect, "str(cmd) is the field-wise assembly of the attributes")
    check(And(cmd.verb == v2, cmd.seqn == seqn_txt, cmd.code == code, cmd.payload == payload), "verb, seqn, code and payload are preserved")
    check(And(cmd.len_ == f"{n:03d}", cmd._len == n), "the length field equals the payload's byte count")
    again = outcome(Command, str(cmd))
    check(again.ok and str(again.value) == str(cmd) and again.value == cmd, "Command(str(cmd)) is an equal command")


@harness("C02", cases=[(k, n) for k in ("other", "self") for n in (1, 48)])
def command_from_attrs_dest(kind, n):
    """Command.from_attrs: dest/from ids -> the (src, dst, --) or (src, --, src) shape."""
    verb = sym_choice("verb", list(VERBS))
    src = sym_dev("a0")
    assume(src != ALL)
    if kind == "self":
        dst = src
    else:
        dst = sym_dev("a1")
        assume(dst != src)
    use_default = sym_bool("default_src") if kind == "other" else False
    code = sym_str("code", 4, "HEX")
    payload = sym_str("payload", 2 * n, "HEX")
    if use_default:
        assume(dst != "18:000730")
        o = outcome(Command.from_attrs, verb, dst, code, payload)
        src = "18:000730"
    else:
        o = outcome(Command.from_attrs, verb, dst, code, payload, from_id=src)
    check(o.ok, "from_attrs yields a command")
    a = (src, NON, dst) if kind == "self" else (src, dst, NON)
    check(str(o.value) == f"{verb} --- {a[0]} {a[1]} {a[2]} {code} {n:03d} {payload}", "from_attrs assembles the frame")
    check(And(o.value.src.id == src, o.value.dst.id == dst), "src and dst are the ids given")


@harness("C02", cases=[(shape, n) for shape in (1, 2, 3) for n in (1, 24, 25, 48)], quick=lambda shape, n: n in (1, 25))
def command_from_cli_roundtrip(shape, n):
    """The CLI short form (the frame without its length field) of any valid frame is
    parsed by Command.from_cli to a command that prints as the frame."""
    verb = sym_choice("verb", list(VERBS))
    _, seqn = sym_seqn()
    a0, a1, a2 = sym_addr_set(shape)
    code = sym_str("code", 4, "HEX")
    payload = sym_str("payload", 2 * n, "HEX")
    frame = f"{verb} {seqn} {a0} {a1} {a2} {code} {n:03d} {payload}"
    assume(outcome(Frame, frame).ok)  # a structurally valid frame (contract frame_parse_print)
    cli = f"{verb} {seqn} {a0} {a1} {a2} {code} {payload}"
    o = outcome(Command.from_cli, cli)
    check(o.ok, "the CLI form of a valid frame is accepted")
    check(str(o.value) == frame, "from_cli(short(frame)) prints as frame")


# ---- received packets ----------------------------------------------------------------
DTM = "2023-11-30T13:15:00.123456"


def pkt_lifespan_callsite(pkt):
    """Call-site contract of packet.pkt_lifespan: returns some lifespan or raises; assigns
    nothing but the frame's memo fields.  (Discharged for the real function by the C14
    harness pkt_lifespan_contract; C01 decides which exceptions may leave it.)"""
    if sym_bool("lifespan_raises"):
        raise AssertionError("array from a non-controller")
    return opaque("lifespan")


@harness("C02", cases=[(shape, n) for shape in (1, 2, 3) for n in (1, 3, 6, 48)], quick=lambda shape, n: n in (3, 48),
         subst={_packet.pkt_lifespan: pkt_lifespan_callsite})
def packet_parse_print(shape, n):
    """Packet(dtm, f'{rssi} {frame}') of a valid frame prints as the frame, keeps the RSSI."""
    verb = sym_choice("verb", list(VERBS))
    _, seqn = sym_seqn()
    a0, a1, a2 = sym_addr_set(shape)
    code = sym_str("code", 4, "HEX")
    payload = sym_str("payload", 2 * n, "HEX")
    rssi = sym_str("rssi", 3, "digit")
    frame = f"{verb} {seqn} {a0} {a1} {a2} {code} {n:03d} {payload}"
    o = outcome(Packet.from_file, DTM, f"{rssi} {frame}")
    if o.ok:
        cover("accepted")
        p = o.value
        check(str(p) == frame, "str(Packet(frame)) == frame")
        check(p._rssi == rssi, "the RSSI is preserved")
        check(And(p.verb == verb, p.seqn == seqn, p.code == code, p.payload == payload, p.len_ == f"{n:03d}"), "packet fields are the frame's columns")
        check(p.dtm.isoformat(timespec="microseconds") == DTM, "the timestamp is preserved")


def _no_marks(s):
    return And(*[And(c != "#", c != "*", c != "<") for c in s])


@harness("C02", cases=[(a, b, c) for a in (0, 2) for b in (0, 2) for c in (0, 3)])
def packet_partition_contract(nh, ne, nc):
    """Packet._partition splits  pkt[ < hint][ * err][ # comment]  into (pkt, err, comment)."""
    pkt = sym_str("pkt", 4, "print")
    hint = sym_str("hint", nh, "print")
    err = sym_str("err", ne, "print")
    com = sym_str("com", nc, "print")
    assume(_no_marks(pkt))
    assume(_no_marks(hint))
    assume(_no_marks(err))
    line = pkt + (" < " + hint if nh else "") + (" * " + err if ne else "") + (" # " + com if nc else "")
    o = outcome(Packet._partition, line)
    check(o.ok, "_partition never raises")
    r = list(o.value)
    check(r[0] == pkt.strip(), "the packet part is everything before the first marker, stripped")
    check(r[1] == err.strip(), "the evofw3 error text is recovered")
    check(r[2] == com.strip(), "the comment is recovered")


# ---- packet log: the replayer reads back what the logger wrote ---------------------------
from io import TextIOWrapper  # noqa: E402

from ramses_tx import transport as _transport  # noqa: E402


class FakeLog(TextIOWrapper):
    """A packet-log file object whose lines are given (iteration only)."""

    def __init__(self, lines):  # noqa: super-init-not-called (never a real file)
        self.lines = lines

    def __iter__(self):
        return iter(self.lines)


class _Delivered:
    pkts = None


def pkt_read_callsite(self, pkt):
    """Call-site contract of _ReadTransport._pkt_read: hands the packet on (ghost list)."""
    self._ghost_delivered.append(pkt)


def make_file_transport(lines):
    return new_object(_transport.FileTransport, _pkt_source=FakeLog(lines), _reading=True, _closing=False,
                      _ghost_delivered=[])


@harness("C02", cases=[(shape, n, nc) for shape in (1, 2, 3) for n in (1, 48) for nc in (0, 3)], quick=lambda shape, n, nc: (n, nc) in ((1, 3), (48, 0)),
         subst={_packet.pkt_lifespan: pkt_lifespan_callsite}, stubs={_transport._ReadTransport._pkt_read: pkt_read_callsite})
def log_line_read_back(shape, n, nc):
    """A line  <asctime 26> <rssi> <frame>[ # comment]  (the format the packet logger writes,
    see log_writer_format) fed through the real FileTransport._reader / _frame_read yields
    one packet that prints as the frame, with the same timestamp, RSSI and comment."""
    verb = sym_choice("verb", list(VERBS))
    _, seqn = sym_seqn()
    a0, a1, a2 = sym_addr_set(shape)
    code = sym_str("code", 4, "HEX")
    payload = sym_str("payload", 2 * n, "HEX")
    rssi = sym_str("rssi", 3, "digit")
    com = sym_str("com", nc, "print")
    if nc:
        assume(And(com[0] != " ", com[nc - 1] != " "))
    frame = f"{verb} {seqn} {a0} {a1} {a2} {code} {n:03d} {payload}"
    direct = outcome(Packet.from_file, DTM, f"{rssi} {frame}")
    line = f"{DTM} {rssi} {frame}" + (f" # {com}" if nc else "") + "\n"
    tp = make_file_transport([line])
    r = outcome(tp._reader)
    check(r.ok, "the log reader does not raise")
    got = tp._ghost_delivered
    if direct.ok:
        check(len(got) == 1, "a line holding an acceptable packet is delivered")
        if len(got) == 1:
            p = got[0]
            check(And(str(p) == frame, p._rssi == rssi), "the packet read back prints as the frame written")
            check(p.dtm.isoformat(timespec="microseconds") == DTM, "the packet read back has the timestamp written")
            check(p.comment == com, "the comment is read back")
            check(p == direct.value, "the packet read back equals the packet that was logged")
    else:
        check(len(got) == 0, "a line whose frame is not acceptable delivers nothing")


# ---- the writer side of the log round trip: validated natively on every run ----------------
from pyvc.harness import native  # noqa: E402


def _random_frame(rng):
    verb = rng.choice(VERBS)
    seqn = rng.choice(["---", f"{rng.randint(0, 255):03d}"])
    dev = lambda: f"{rng.randint(0, 63):02d}:{rng.randint(0, 262143):06d}"  # noqa: E731
    shape = rng.randint(1, 3)
    a, b = dev(), dev()
    while a == ALL or b in (a, ALL):
        a, b = dev(), dev()
    addrs = {1: (a, NON, rng.choice([a, b])), 2: (a, b, NON), 3: (NON, NON, a)}[shape]
    n = rng.choice([1, 2, 3, 6, 12, 24, 25, 47, 48])
    code = rng.choice(["1F09", "2309", "30C9", "0008", "3150", "7FFF", "10E0", "%04X" % rng.randint(0, 65535)])
    payload = "".join(rng.choice("0123456789ABCDEF") for _ in range(2 * n))
    return f"{verb} {seqn} {addrs[0]} {addrs[1]} {addrs[2]} {code} {n:03d} {payload}"


@native("C02")
def log_writer_format(seed, n):
    """Write packets with the real packet logger (ramses_tx.logger.set_pkt_logging), check that
    each line has the format the proved reader contract assumes, and read the file back
    through the real FileTransport._reader: equal packets, equal timestamps."""
    import asyncio
    import logging
    import os
    import random
    import tempfile
    from datetime import datetime as dt, timedelta as td

    from ramses_tx.logger import set_pkt_logging

    rng = random.Random(seed)
    fails, evals = [], 0
    tmp = tempfile.mkdtemp(prefix="pyvc-c02-")
    path = os.path.join(tmp, "packet.log")
    logger = _packet.PKT_LOGGER
    saved = (logger.propagate, logger.level, list(logger.handlers))
    written = []
    try:
        set_pkt_logging(logger, file_name=path)
        t = dt(2023, 11, 30, 13, 15, 0, 123456)
        for i in range(n):
            t += td(microseconds=rng.randint(1, 10 ** 7))
            if i % 4 == 1:
                t = t.replace(microsecond=0)  # an exact second
            elif i % 4 == 2:
                t = t.replace(microsecond=t.microsecond // 1000 * 1000)  # millisecond precision (serial transports)
            frame = _random_frame(rng)
            rssi = f"{rng.randint(0, 999):03d}"
            com = rng.choice(["", "", "a comment", "x*y<z"])
            try:
                p = Packet.from_port(t, f"{rssi} {frame}" + (f" # {com}" if com else ""))
            except exc.PacketInvalid:
                continue
            written.append((t, rssi, frame, com, p))
        for h in list(logger.handlers):
            h.close()
            logger.removeHandler(h)
        lines = [ln for ln in open(path, encoding="utf-8").read().split("\n") if ln]
        body = lines[1:]  # the first line is the version banner
        if len(body) != len(written):
            fails.append({"label": "one log line per accepted packet", "witness": {"seed": seed, "lines": len(body), "packets": len(written)}})
        for ln, (t, rssi, frame, com, p) in zip(body, written):
            evals += 1
            expect = f"{t.isoformat(timespec='microseconds')} {rssi} {frame}" + (f" # {com}" if com else "")
            if ln != expect:
                fails.append({"label": "log line is '<asctime 26> <rssi> <frame>[ # comment]'", "witness": {"seed": seed, "line": ln, "expected": expect}})
        # read back through the real reader
        got = []
        with open(path, encoding="utf-8") as fh:
            tp = new_object(_transport.FileTransport, _pkt_source=fh, _reading=True, _closing=False)
            tp._pkt_read = got.append
            asyncio.run(tp._reader())
        if len(got) != len(written):
            fails.append({"label": "every logged packet is read back", "witness": {"seed": seed, "read": len(got), "written": len(written)}})
        for q, (t, rssi, frame, com, p) in zip(got, written):
            evals += 1
            if not (q == p and str(q) == frame and q.dtm == t and q._rssi == rssi):
                fails.append({"label": "packet read back equals the packet logged (same timestamp)", "witness": {"seed": seed, "frame": frame, "dtm": str(t), "read": repr(q)}})
    finally:
        for h in list(logger.handlers):
            h.close()
            logger.removeHandler(h)
        logger.propagate, logger.level = saved[0], saved[1]
        for h in saved[2]:
            logger.addHandler(h)
        import shutil
        shutil.rmtree(tmp, ignore_errors=True)
    return {"evaluations": evals, "failures": fails[:5]}
