#!/bin/sh
# Build /verif/.venv offline: /venv's interpreter + solver wheels from the wheelhouse,
# with /venv's site-packages (the repo's own dependencies) added through a .pth file.
set -e
cd "$(dirname "$0")"
V=.venv
if [ -x "$V/bin/python" ] && "$V/bin/python" -c 'import z3, cvc5, jsonschema, ramses_tx' 2>/dev/null; then
  exit 0
fi
rm -rf "$V"
/venv/bin/python -m venv "$V"
PIP_NO_INDEX=1 "$V/bin/pip" install -q --no-index --find-links /opt/veriftools/wheels \
    z3-solver cvc5 crosshair-tool deal icontract jsonschema >/dev/null
SP=$("$V/bin/python" -c 'import sysconfig; print(sysconfig.get_paths()["purelib"])')
echo "import site; site.addsitedir('/venv/lib/python3.12/site-packages')" > "$SP/_repo.pth"
"$V/bin/python" -c 'import z3, cvc5, jsonschema, ramses_tx, ramses_rf' 
