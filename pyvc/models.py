"""Operator semantics, builtin models and the symbolic meaning of the api intrinsics."""
from __future__ import annotations

import ast
import builtins
import datetime as _dtmod
import re
import types

import z3

from . import api, front, m_num, m_str
from .m_num import is_floatlike, is_intlike, is_num, float_ne_zero, neg  # noqa: F401
from .m_str import format_value, str_concat  # noqa: F401
from .sym import (
    FALSE, TRUE, And, Opaque, Or, PathAbort, PyRaise, SBool, SBound, SDt, SFloat, SFunc,
    SInt, SMatch, SObj, SSet, SStr, SSuper, STd, SUnb, Unsupported, bool_term, char_term,
    int_term, is_str, is_symbolic, mk_bool, mk_int, mk_str, str_chars, str_eq_term,
)


def type_of(v):
    from .interp import type_of as t
    return t(v)


# ================================================================== boolean glue
def not_(it, v):
    if isinstance(v, bool):
        return not v
    if isinstance(v, SBool):
        return mk_bool(z3.Not(v.t))
    if v is NotImplemented:
        return NotImplemented
    return not it.truth(v)


def and_values(it, a, b):
    if a is True:
        return b
    if b is True:
        return a
    if a is False or b is False:
        return False
    return mk_bool(z3.And(bool_term(a), bool_term(b)))


def or_values(it, a, b):
    if a is False:
        return b
    if b is False:
        return a
    if a is True or b is True:
        return True
    return mk_bool(z3.Or(bool_term(a), bool_term(b)))


def as_bool_value(it, v):
    """Coerce any value to bool / SBool without forking when it is already boolean."""
    if isinstance(v, (bool, SBool)):
        return v
    if isinstance(v, SInt):
        return mk_bool(v.t != 0)
    return it.truth(v)


# ================================================================== equality etc.
def _user_method(it, v, name):
    cls = type_of(v)
    if isinstance(v, SObj) or front.is_user_module(getattr(cls, "__module__", None)):
        found = it.class_lookup(cls, name)
        if found is not None and isinstance(found[0], types.FunctionType) and front.is_user_module(found[0].__module__):
            return found
    return None


def eq(it, a, b):
    if a is b and not isinstance(a, (SFloat, float)):
        return True
    sa, sb = is_symbolic(a), is_symbolic(b)
    if not sa and not sb:
        ua = _user_method(it, a, "__eq__")
        if ua is None:
            try:
                return bool(a == b)
            except Exception as e:  # noqa: BLE001
                raise PyRaise(e)
    if a is None or b is None:
        if isinstance(a, SObj) or isinstance(b, SObj):
            pass  # may define __eq__
        else:
            return False
    if isinstance(a, SUnb) or isinstance(b, SUnb):
        o = b if isinstance(a, SUnb) else a
        if is_str(o) or isinstance(o, SUnb):
            return mk_bool(z3.Bool(it.ex.fresh_name("unb_eq")))
        return False
    if is_str(a) and is_str(b):
        sc = _fmt_eq_shortcut(it, a, b)
        if sc is not None:
            return sc
        return mk_bool_v(str_eq_term(a, b))
    if is_num(a) and is_num(b):
        return m_num.num_eq(it, a, b)
    if isinstance(a, (tuple, list)) and isinstance(b, (tuple, list)):
        if type(a) is not type(b) or len(a) != len(b):
            return False
        r = True
        for x, y in zip(a, b):
            e = as_bool_value(it, eq(it, x, y))
            r = and_values(it, r, e)
            if r is False:
                return False
        return r
    if isinstance(a, dict) and isinstance(b, dict):
        if is_symbolic(list(a.keys())) or is_symbolic(list(b.keys())):
            raise Unsupported("dict equality with symbolic keys")
        if set(a.keys()) != set(b.keys()):
            return False
        r = True
        for k in a:
            r = and_values(it, r, as_bool_value(it, eq(it, a[k], b[k])))
            if r is False:
                return False
        return r
    if isinstance(a, SDt) or isinstance(b, SDt) or isinstance(a, STd) or isinstance(b, STd):
        from . import m_dt
        return m_dt.dt_eq(it, a, b)
    for x, y in ((a, b), (b, a)):
        um = _user_method(it, x, "__eq__")
        if um is not None:
            r = it.call(SBound(um[0], x, um[1]), [y], {})
            if r is not NotImplemented:
                return r
    if isinstance(a, SSet) or isinstance(b, SSet):
        raise Unsupported("set equality (symbolic)")
    if isinstance(a, (SObj, SFunc, SBound, Opaque, SMatch)) or isinstance(b, (SObj, SFunc, SBound, Opaque, SMatch)):
        return a is b
    # different kinds (e.g. str vs int, symbolic vs None)
    ta, tb = type_of(a), type_of(b)
    if (issubclass(ta, str) != issubclass(tb, str)) or (is_num(a) != is_num(b)):
        return False
    if not sa and not sb:
        try:
            return bool(a == b)
        except Exception as e:  # noqa: BLE001
            raise PyRaise(e)
    raise Unsupported(f"== between {ta.__name__} and {tb.__name__}")


def _fmt_eq_shortcut(it, a, b):
    """Strings made of literal characters and fixed-width formatted non-negative integers, with
    the same layout on both sides: equal iff the literals agree and the integers are equal
    (fixed-width formatting is injective below base**width, which int_to_str established)."""
    if not (isinstance(a, SStr) or isinstance(b, SStr)):
        return None
    ca, cb = str_chars(a), str_chars(b)
    if len(ca) != len(cb):
        return None
    conj, i, used = [], 0, False
    n = len(ca)
    while i < n:
        x, y = ca[i], cb[i]
        if isinstance(x, int) and isinstance(y, int):
            if x != y:
                return False
            i += 1
            continue
        if isinstance(x, int) or isinstance(y, int):
            return None  # a literal against a symbolic char: leave it to the general encoding
        ra, rb = it.ex.fmt_rec.get(x.get_id()), it.ex.fmt_rec.get(y.get_id())
        if ra is None or rb is None or ra["neg"] or rb["neg"] or ra["base"] != rb["base"] or len(ra["chars"]) != len(rb["chars"]):
            return None
        L = len(ra["chars"])
        if i + L > n:
            return None
        for k in range(L):
            for rec, cs in ((ra, ca), (rb, cb)):
                u, v = rec["chars"][k], cs[i + k]
                if isinstance(u, int) != isinstance(v, int) or (isinstance(u, int) and u != v) or (not isinstance(u, int) and not u.eq(v)):
                    return None
        conj.append(ra["mag"] == rb["mag"])
        used = True
        i += L
    if not used:
        return None
    return mk_bool(And(*conj))


def mk_bool_v(t):
    if isinstance(t, bool):
        return t
    return mk_bool(t)


def is_(it, a, b):
    if a is b:
        return True
    for x, y in ((a, b), (b, a)):
        if y is None:
            return False  # x is not the None object (a is b handled above)
        if isinstance(y, bool) and isinstance(x, SBool):
            return mk_bool(x.t if y else z3.Not(x.t))
        if isinstance(y, bool):
            return False
    if isinstance(a, SBool) and isinstance(b, SBool):
        return mk_bool(a.t == b.t)
    if is_str(a) and is_str(b) and (isinstance(a, SStr) or isinstance(b, SStr)):
        raise Unsupported("`is` between strings")
    if isinstance(a, (SInt, SFloat)) or isinstance(b, (SInt, SFloat)):
        raise Unsupported("`is` between numbers")
    return False


def absset_member(it, container, x):
    from .sym import SAbsSet  # noqa: F401
    if not is_str(x):
        return False
    cs = str_chars(x)
    r = False
    if len(cs) == 9:
        r = mk_bool(container.fn(*[char_term(c) for c in cs]))
    for e in container.extra:
        r = or_values(it, r, as_bool_value(it, eq(it, x, e)))
    return r


def contains(it, container, x):
    if type(container).__name__ == "SAbsSet":
        return absset_member(it, container, x)
    if isinstance(container, Opaque):
        raise Unsupported("in opaque")
    if is_str(container):
        if not is_str(x):
            it.py_raise(TypeError, "'in <string>' requires string as left operand")
        return m_str.s_contains(it, container, x)
    if isinstance(container, SSet):
        r = False
        for e, c in container.members:
            r = or_values(it, r, and_values(it, mk_bool_v(c), as_bool_value(it, eq(it, x, e))))
        return r
    if isinstance(container, dict):
        if not is_symbolic(x):
            try:
                if x in container:
                    return True
            except TypeError as e:
                raise PyRaise(e)
            if not is_symbolic(list(container.keys())):
                return False
        return _any_eq(it, x, list(container.keys()))
    if isinstance(container, (list, tuple, set, frozenset)):
        if not is_symbolic(x) and not is_symbolic(container) and _user_method(it, x, "__eq__") is None \
                and not any(_user_method(it, e, "__eq__") for e in container):
            return x in container
        if isinstance(container, (set, frozenset)) and is_str(x):
            # prefilter by length
            cand = [e for e in container if is_str(e) and len(e) == len(str_chars(x))]
            return _any_eq(it, x, cand)
        return _any_eq(it, x, list(container))
    if isinstance(container, range):
        if isinstance(x, SFloat) and container.step == 1 and it.float_mode == "real":
            # a float is in a range iff it is integral and within the bounds
            return mk_bool(And(z3.IsInt(x.t), x.t >= container.start, x.t < container.stop))
        if isinstance(x, SFloat):
            raise Unsupported("float in range (fp mode / step)")
        if isinstance(x, SInt):
            t = And(x.t >= container.start, x.t < container.stop) if container.step == 1 else None
            if t is None:
                raise Unsupported("in range with step")
            return mk_bool(t)
        return x in container
    if isinstance(container, types.GeneratorType):
        return _any_eq(it, x, list(container))
    um = _user_method(it, container, "__contains__")
    if um is not None:
        return it.call(SBound(um[0], container, um[1]), [x], {})
    if isinstance(container, (dict, type({}.keys()), type({}.values()), type({}.items()))):
        return _any_eq(it, x, list(container))
    if not is_symbolic(x):
        try:
            return x in container
        except Exception as e:  # noqa: BLE001
            raise PyRaise(e)
    try:
        items = list(container)
    except Exception:
        raise Unsupported(f"`in` {type(container).__name__}")
    return _any_eq(it, x, items)


def _any_eq(it, x, items):
    r = False
    for e in items:
        v = eq(it, x, e)
        v = as_bool_value(it, v)
        r = or_values(it, r, v)
        if r is True:
            return True
    return r


def order(it, op, a, b):
    if is_num(a) and is_num(b):
        if not is_symbolic(a) and not is_symbolic(b):
            return {"<": a < b, "<=": a <= b, ">": a > b, ">=": a >= b}[op]
        return m_num.num_order(it, op, a, b)
    if is_str(a) and is_str(b):
        if isinstance(a, str) and isinstance(b, str):
            return {"<": a < b, "<=": a <= b, ">": a > b, ">=": a >= b}[op]
        return m_str.s_order(it, op, a, b)
    if isinstance(a, (SDt, STd, _dtmod.datetime, _dtmod.timedelta)) and isinstance(b, (SDt, STd, _dtmod.datetime, _dtmod.timedelta)):
        from . import m_dt
        if is_symbolic(a) or is_symbolic(b):
            return m_dt.dt_order(it, op, a, b)
    if isinstance(a, (tuple, list)) and type(a) is type(b):
        # lexicographic
        for i, (x, y) in enumerate(zip(a, b)):
            e = eq(it, x, y)
            if it.truth(e):
                continue
            return order(it, op[0], x, y)
        return {"<": len(a) < len(b), "<=": len(a) <= len(b), ">": len(a) > len(b), ">=": len(a) >= len(b)}[op]
    name = {"<": "__lt__", "<=": "__le__", ">": "__gt__", ">=": "__ge__"}[op]
    um = _user_method(it, a, name)
    if um is not None:
        r = it.call(SBound(um[0], a, um[1]), [b], {})
        if r is not NotImplemented:
            return r
    # the reflected method of the right operand (data model: a > b falls back to b.__lt__(a) etc.)
    rname = {"<": "__gt__", "<=": "__ge__", ">": "__lt__", ">=": "__le__"}[op]
    um = _user_method(it, b, rname)
    if um is not None:
        r = it.call(SBound(um[0], b, um[1]), [a], {})
        if r is not NotImplemented:
            return r
    if not is_symbolic(a) and not is_symbolic(b):
        try:
            return {"<": lambda: a < b, "<=": lambda: a <= b, ">": lambda: a > b, ">=": lambda: a >= b}[op]()
        except Exception as e:  # noqa: BLE001
            raise PyRaise(e)
    if (a is None) or (b is None) or (is_str(a) != is_str(b)):
        it.py_raise(TypeError, f"'{op}' not supported between instances of '{type_of(a).__name__}' and '{type_of(b).__name__}'")
    raise Unsupported(f"ordering {type_of(a).__name__} {op} {type_of(b).__name__}")


# ================================================================== binary ops
_PYOP = {
    ast.Add: lambda a, b: a + b, ast.Sub: lambda a, b: a - b, ast.Mult: lambda a, b: a * b,
    ast.Div: lambda a, b: a / b, ast.FloorDiv: lambda a, b: a // b, ast.Mod: lambda a, b: a % b,
    ast.Pow: lambda a, b: a ** b, ast.LShift: lambda a, b: a << b, ast.RShift: lambda a, b: a >> b,
    ast.BitAnd: lambda a, b: a & b, ast.BitOr: lambda a, b: a | b, ast.BitXor: lambda a, b: a ^ b,
    ast.MatMult: lambda a, b: a @ b,
}


def binop(it, op, a, b, inplace=False):
    if not is_symbolic(a) and not is_symbolic(b):
        if inplace and isinstance(a, list) and isinstance(op, ast.Add):
            a.extend(b)
            return a
        if inplace and isinstance(a, dict) and isinstance(op, ast.BitOr):
            a.update(b)
            return a
        if inplace and isinstance(a, set) and isinstance(op, ast.BitOr):
            a.update(b)
            return a
        try:
            return _PYOP[type(op)](a, b)
        except (Unsupported, PathAbort):
            raise
        except Exception as e:  # noqa: BLE001
            raise PyRaise(e)
    if isinstance(a, (SDt, STd, _dtmod.datetime, _dtmod.timedelta)) or isinstance(b, (SDt, STd, _dtmod.datetime, _dtmod.timedelta)):
        from . import m_dt
        return m_dt.dt_binop(it, op, a, b)
    if is_num(a) and is_num(b):
        if is_floatlike(a) or is_floatlike(b):
            if isinstance(op, (ast.Add, ast.Sub, ast.Mult, ast.Div)):
                return m_num.float_binop(it, op, a, b)
            raise Unsupported(f"float {type(op).__name__}")
        return m_num.int_binop(it, op, a, b)
    if isinstance(op, ast.Add):
        if is_str(a) and is_str(b):
            return str_concat([a, b])
        if isinstance(a, list) and isinstance(b, list):
            if inplace:
                a.extend(b)
                return a
            return a + b
        if isinstance(a, tuple) and isinstance(b, tuple):
            return a + b
        if isinstance(a, Opaque) or isinstance(b, Opaque):
            return Opaque("str")
    if isinstance(op, ast.Mult):
        for x, y in ((a, b), (b, a)):
            if is_str(x) and isinstance(y, (SInt, SBool)):
                return SUnb("repeated")  # a string of symbolic length: content not tracked
            if (is_str(x) or isinstance(x, (list, tuple))) and isinstance(y, int):
                if is_str(x):
                    return mk_str(list(str_chars(x)) * y)
                return x * y
    if isinstance(op, ast.Mod) and is_str(a):
        return percent_format(it, a, b)
    if isinstance(op, ast.BitOr) and isinstance(a, dict) and isinstance(b, dict):
        if inplace:
            for k, v in b.items():
                dict_set(it, a, k, v)
            return a
        d = dict(a)
        for k, v in b.items():
            dict_set(it, d, k, v)
        return d
    if isinstance(op, (ast.BitAnd, ast.BitOr, ast.Sub)) and (isinstance(a, (SSet, set, frozenset)) and isinstance(b, (SSet, set, frozenset))):
        return set_op(it, op, a, b)
    if isinstance(op, ast.BitOr) and isinstance(a, type) and (isinstance(b, type) or b is None):
        return a | b
    raise Unsupported(f"binary {type(op).__name__} on {type_of(a).__name__}, {type_of(b).__name__}")


def set_op(it, op, a, b):
    ma = a.members if isinstance(a, SSet) else [(e, TRUE) for e in a]
    mb = b.members if isinstance(b, SSet) else [(e, TRUE) for e in b]

    def member(x, ms):
        r = False
        for e, c in ms:
            r = or_values(it, r, and_values(it, mk_bool_v(c), as_bool_value(it, eq(it, x, e))))
        return bool_term(r) if not isinstance(r, bool) else z3.BoolVal(r)

    if isinstance(op, ast.BitAnd):
        return SSet([(e, z3.And(c, member(e, mb))) for e, c in ma])
    if isinstance(op, ast.BitOr):
        return SSet(ma + mb)
    return SSet([(e, z3.And(c, z3.Not(member(e, mb)))) for e, c in ma])


def percent_format(it, fmt, args):
    if not isinstance(fmt, str):
        raise Unsupported("% formatting with symbolic format")
    if not isinstance(args, tuple):
        args = (args,)
    parts = re.split(r"(%[-0-9.]*[sdrxXf%])", fmt)
    out = []
    ai = 0
    for p in parts:
        if p.startswith("%") and len(p) > 1:
            if p == "%%":
                out.append("%")
                continue
            v = args[ai]
            ai += 1
            if not is_symbolic(v):
                out.append(p % (v,))
            elif p == "%s":
                out.append(str_(it, v))
            elif p == "%r":
                out.append(repr_(it, v))
            else:
                return Opaque("str")
        else:
            out.append(p)
    return str_concat(out)


# ================================================================== containers
def norm_index(it, idx, n):
    if isinstance(idx, bool):
        idx = int(idx)
    if isinstance(idx, SInt):
        raise Unsupported("symbolic index")
    if not isinstance(idx, int):
        it.py_raise(TypeError, "indices must be integers")
    if idx < 0:
        idx += n
    if not 0 <= idx < n:
        it.py_raise(IndexError, "index out of range")
    return idx


def _slice_ok(sl):
    for x in (sl.start, sl.stop, sl.step):
        if x is not None and not isinstance(x, int):
            raise Unsupported("symbolic slice bound")


def getitem(it, obj, idx):
    if isinstance(obj, SUnb):
        if isinstance(idx, slice):
            _slice_ok(idx)
            return SUnb(obj.name + "_slice")
        # a single index may be out of range
        if it.decide(z3.Bool(it.ex.fresh_name("unb_index_ok"))):
            return SUnb(obj.name + "_char")
        it.py_raise(IndexError, "string index out of range")
    if is_str(obj):
        cs = str_chars(obj)
        if isinstance(idx, slice):
            _slice_ok(idx)
            return mk_str(cs[idx])
        if isinstance(idx, SInt):
            return _sym_index(it, [mk_str([c]) for c in cs], idx)
        return mk_str([cs[norm_index(it, idx, len(cs))]])
    if isinstance(obj, (list, tuple)):
        if isinstance(idx, slice):
            _slice_ok(idx)
            return obj[idx]
        if isinstance(idx, SInt):
            return _sym_index(it, obj, idx)
        return obj[norm_index(it, idx, len(obj))]
    if isinstance(obj, dict):
        if type(obj) is not dict and type(obj).__name__ != "OrderedDict" and not is_symbolic(idx) and not is_symbolic(obj):
            try:
                return obj[idx]  # a dict subclass with its own __getitem__ (e.g. the AttrDict maps)
            except Exception as e:  # noqa: BLE001
                raise PyRaise(e)
        return dict_get(it, obj, idx, raise_=True)
    if isinstance(obj, SObj) or _user_method(it, obj, "__getitem__"):
        um = _user_method(it, obj, "__getitem__")
        if um is None:
            it.py_raise(TypeError, f"'{type_of(obj).__name__}' object is not subscriptable")
        return it.call(SBound(um[0], obj, um[1]), [idx], {})
    if isinstance(obj, Opaque):
        raise Unsupported("subscript of opaque value")
    if isinstance(obj, SMatch):
        raise Unsupported("match groups")
    if not is_symbolic(idx):
        try:
            return obj[idx]
        except Exception as e:  # noqa: BLE001
            raise PyRaise(e)
    if isinstance(obj, (bytes, bytearray)):
        raise Unsupported("symbolic index into bytes")
    if isinstance(obj, type):
        return obj  # generic alias such as dict[str, int]
    raise Unsupported(f"subscript {type_of(obj).__name__}[{type_of(idx).__name__}]")


def _sym_index(it, seq, idx):
    n = len(seq)
    for i in range(n):
        if it.decide(Or(idx.t == i, idx.t == i - n)):
            return seq[i]
    it.py_raise(IndexError, "index out of range")


def dict_get(it, d, key, raise_=False, default=None):
    if not is_symbolic(key):
        try:
            if key in d:
                return d[key]
        except TypeError as e:
            raise PyRaise(e)
        if not is_symbolic(list(d.keys())):
            if raise_:
                raise PyRaise(KeyError(key))
            return default
    keys = list(d.keys())
    if is_str(key):
        n = len(str_chars(key))
        keys = [k for k in keys if is_str(k) and len(str_chars(k)) == n]
    elif isinstance(key, (SInt, SBool)):
        keys = [k for k in keys if isinstance(k, (int, bool, SInt, SBool))]
    elif isinstance(key, tuple):
        keys = [k for k in keys if isinstance(k, tuple) and len(k) == len(key)]
    if len(keys) > 4:
        anyk = _any_eq(it, key, keys)
        if not it.truth(anyk):
            keys = []
    for k in keys:
        if it.truth(eq(it, key, k)):
            return d[k]
    if raise_:
        raise PyRaise(it.make_exc(KeyError, [key]))
    return default


class SymKey:
    """Hashable wrapper for a symbolic dict key (identity hashing)."""

    def __init__(self, v):
        self.v = v


def dict_set(it, d, key, value):
    if is_symbolic(key) and not isinstance(key, (SObj, Opaque, SFunc)):
        # symbolic key: overwrite an equal key when provably equal, else must be distinct
        for k in list(d.keys()):
            kk = k
            if (is_str(kk) and is_str(key)) or (is_intlike(kk) and is_intlike(key)):
                e = eq(it, key, kk)
                if it.truth(e):
                    d[k] = value
                    return
        # on this path the key differs from every existing key it could equal: a new entry
        # (the symbolic value object itself is the dict key; look-ups compare symbolically)
    try:
        d[key] = value
    except TypeError as e:
        raise PyRaise(e)


def setitem(it, obj, idx, value):
    if isinstance(obj, dict):
        return dict_set(it, obj, idx, value)
    if isinstance(obj, list):
        if isinstance(idx, slice):
            _slice_ok(idx)
            obj[idx] = value
            return
        obj[norm_index(it, idx, len(obj))] = value
        return
    um = _user_method(it, obj, "__setitem__")
    if um is not None:
        return it.call(SBound(um[0], obj, um[1]), [idx, value], {})
    raise Unsupported(f"item store on {type_of(obj).__name__}")


def delitem(it, obj, idx):
    if isinstance(obj, dict):
        if is_symbolic(idx):
            for k in list(obj.keys()):
                if it.truth(eq(it, idx, k)):
                    del obj[k]
                    return
            raise PyRaise(it.make_exc(KeyError, [idx]))
        if idx not in obj:
            raise PyRaise(KeyError(idx))
        del obj[idx]
        return
    if isinstance(obj, list):
        if isinstance(idx, slice):
            del obj[idx]
        else:
            del obj[norm_index(it, idx, len(obj))]
        return
    raise Unsupported("del item")


def iterate(it, v):
    if isinstance(v, (list, tuple, range, types.GeneratorType)):
        return v
    if type(v).__name__ == "deque":
        return list(v)
    if isinstance(v, dict):
        return list(v.keys())
    if is_str(v):
        return [mk_str([c]) for c in str_chars(v)]
    if isinstance(v, (set, frozenset)):
        return sorted(v, key=repr)  # deterministic order (A5: code must not depend on it)
    if isinstance(v, SSet):
        raise Unsupported("iteration over symbolic set")
    if isinstance(v, (SObj,)):
        um = _user_method(it, v, "__iter__")
        if um is not None:
            return iterate(it, it.call(SBound(um[0], v, um[1]), [], {}))
        raise PyRaise(TypeError(f"'{v.cls.__name__}' object is not iterable"))
    if isinstance(v, (SInt, SBool, SFloat)) or v is None:
        it.py_raise(TypeError, f"'{type_of(v).__name__}' object is not iterable")
    if isinstance(v, Opaque):
        raise Unsupported("iteration over opaque value")
    try:
        return iter(v)
    except TypeError as e:
        raise PyRaise(e)


# ================================================================== str / repr
def str_(it, v):
    if isinstance(v, (str, SStr, SUnb)):
        return v
    if isinstance(v, Opaque):
        return Opaque("str")
    if isinstance(v, SBool):
        return "True" if it.decide(v.t) else "False"
    if isinstance(v, SInt):
        return mk_str(m_str.int_to_str(it, v, 10))
    if isinstance(v, SFloat):
        raise Unsupported("str(symbolic float)")
    if isinstance(v, SObj):
        for nm in ("__str__", "__repr__"):
            um = _user_method(it, v, nm)
            if um is not None:
                return it.call(SBound(um[0], v, um[1]), [], {})
        if issubclass(v.cls, BaseException):
            args = v.attrs.get("args", ())
            if len(args) == 0:
                return ""
            if len(args) == 1:
                return str_(it, args[0])
            return repr_(it, tuple(args))
        return Opaque("str")
    if isinstance(v, SDt):
        from . import m_dt
        return m_dt.dt_isoformat(it, v, sep=" ")
    if not is_symbolic(v):
        um = _user_method(it, v, "__str__")
        if um is not None:
            return it.call(SBound(um[0], v, um[1]), [], {})
        try:
            return str(v)
        except Exception as e:  # noqa: BLE001
            raise PyRaise(e)
    if isinstance(v, (list, tuple, dict)):
        return repr_(it, v)
    raise Unsupported(f"str({type_of(v).__name__})")


def repr_(it, v):
    if isinstance(v, SUnb):
        return Opaque("str")
    if isinstance(v, SStr):
        # exact when no character needs escaping and there is no quote
        for c in v.chars:
            if not isinstance(c, int):
                if not it.decide(z3.And(c >= 32, c < 127, c != 39, c != 92)):
                    raise Unsupported("repr() of a string that may need escaping")
            elif not (32 <= c < 127 and c not in (39, 92)):
                raise Unsupported("repr() of a string that needs escaping")
        return mk_str([39] + list(v.chars) + [39])
    if isinstance(v, (SInt, SBool)):
        return str_(it, v)
    if isinstance(v, SObj):
        um = _user_method(it, v, "__repr__")
        if um is not None:
            return it.call(SBound(um[0], v, um[1]), [], {})
        return Opaque("str")
    if isinstance(v, (list, tuple)) and is_symbolic(v):
        parts = []
        for i, x in enumerate(v):
            if i:
                parts.append(", ")
            parts.append(repr_(it, x))
        if isinstance(v, tuple):
            return str_concat(["("] + parts + ([",)"] if len(v) == 1 else [")"]))
        return str_concat(["["] + parts + ["]"])
    if isinstance(v, dict) and is_symbolic(v):
        parts = []
        for i, (k, x) in enumerate(v.items()):
            if i:
                parts.append(", ")
            parts += [repr_(it, k), ": ", repr_(it, x)]
        return str_concat(["{"] + parts + ["}"])
    if isinstance(v, Opaque):
        return Opaque("str")
    if not is_symbolic(v):
        um = _user_method(it, v, "__repr__")
        if um is not None:
            return it.call(SBound(um[0], v, um[1]), [], {})
        try:
            return repr(v)
        except Exception as e:  # noqa: BLE001
            raise PyRaise(e)
    raise Unsupported(f"repr({type_of(v).__name__})")


# ================================================================== context managers
def ctx_enter(it, cm):
    if isinstance(cm, SObj):
        um = _user_method(it, cm, "__enter__")
        if um:
            return it.call(SBound(um[0], cm, um[1]), [], {})
    if isinstance(cm, Opaque):
        return cm
    h = it.hooks.get("ctx_enter")
    if h:
        return h(it, cm)
    if type(cm).__name__ in ("lock", "RLock", "_RLock"):
        return cm  # single-threaded (A13): acquiring an uncontended lock is a no-op
    if type(cm).__name__ == "suppress" and type(cm).__module__ == "contextlib":
        return None
    raise Unsupported(f"with {type_of(cm).__name__}")


def ctx_exit(it, cm, exc):
    if type(cm).__name__ == "suppress" and type(cm).__module__ == "contextlib":
        return exc is not None and it.exc_matches(exc, tuple(cm._exceptions))
    if isinstance(cm, SObj):
        um = _user_method(it, cm, "__exit__")
        if um:
            return it.truth(it.call(SBound(um[0], cm, um[1]), [None, exc, None], {}))
    return False


# ================================================================== attribute access on symbolic primitives
def symbolic_attr(it, obj, name):
    if isinstance(obj, (SStr, SUnb)):
        d = getattr(str, name, None)
        if d is None:
            it.py_raise(AttributeError, f"'str' object has no attribute '{name}'")
        return SBound(d, obj)
    if isinstance(obj, (SInt, SBool)):
        d = getattr(int, name, None)
        if d is None:
            it.py_raise(AttributeError, f"'int' object has no attribute '{name}'")
        return SBound(d, obj)
    if isinstance(obj, SFloat):
        d = getattr(float, name, None)
        if d is None:
            it.py_raise(AttributeError, f"'float' object has no attribute '{name}'")
        return SBound(d, obj)
    if isinstance(obj, (SDt, STd)):
        from . import m_dt
        return m_dt.dt_attr(it, obj, name)
    if isinstance(obj, SSet):
        d = getattr(set, name, None)
        if d is None:
            it.py_raise(AttributeError, name)
        return SBound(d, obj)
    if isinstance(obj, SMatch):
        raise Unsupported(f"match object attribute {name}")
    raise Unsupported(f"attribute {name} of {type(obj).__name__}")


# ================================================================== model registry
MODELS: dict = {}


def model(*targets):
    def deco(fn):
        for t in targets:
            MODELS[t] = fn
        return fn
    return deco


def lookup_model(f):
    try:
        return MODELS.get(f)
    except TypeError:
        return None


from . import m_builtins  # noqa: E402,F401  (registers models and INTRINSICS)

INTRINSICS = m_builtins.INTRINSICS
from . import m_dt  # noqa: E402,F401  (registers datetime models)
