"""Registry of contract harnesses (obligation generators)."""
from __future__ import annotations

REGISTRY: list = []


class Harness:
    def __init__(self, fn, prop, name, cases, tier, float_mode, subst, feas_ms, check_ms, kind, fp_refute):
        self.fn = fn
        self.prop = prop
        self.name = name or fn.__name__
        self.cases = cases  # list of tuples (positional args of fn) or None
        self.tier = tier  # 'quick' (both tiers) or 'thorough'
        self.float_mode = float_mode
        self.subst = subst or {}
        self.feas_ms = feas_ms
        self.check_ms = check_ms
        self.kind = kind  # 'contract' | 'lemma' | 'cover'
        self.fp_refute = fp_refute

    def case_list(self):
        return self.cases if self.cases is not None else [()]


def harness(prop, name=None, cases=None, tier="quick", float_mode="real", subst=None,
            feas_ms=1500, check_ms=20000, kind="contract", fp_refute=False):
    def deco(fn):
        h = Harness(fn, prop, name, cases, tier, float_mode, subst, feas_ms, check_ms, kind, fp_refute)
        REGISTRY.append(h)
        fn.__harness__ = h
        return fn
    return deco
