"""Registry of contract harnesses (obligation generators)."""
from __future__ import annotations

REGISTRY: list = []


class Harness:
    def __init__(self, fn, prop, name, cases, tier, float_mode, subst, feas_ms, check_ms, kind, fp_refute, quick=None, state_only=False, budget_s=None, stubs=None, vacuous_ok=None, heavy=None):
        self.heavy = heavy  # predicate over a case: expected to be slow -> scheduled first
        self.vacuous_ok = vacuous_ok  # predicate over a case: an empty domain is legitimate there (reported)
        self.stubs = stubs or {}  # environment-boundary callees replaced by their contract in BOTH modes
        self.fn = fn
        self.prop = prop
        self.name = name or fn.__name__
        self.cases = cases  # list of tuples (positional args of fn) or None
        self.tier = tier  # 'quick' (both tiers) or 'thorough'
        self.float_mode = float_mode
        self.subst = subst or {}
        self.feas_ms = feas_ms
        self.check_ms = check_ms
        self.kind = kind  # 'contract' | 'lemma' | 'cover'
        self.fp_refute = fp_refute
        self.quick = quick  # predicate over a case tuple: run it in the quick tier?
        self.state_only = state_only  # counter-models are over ghost/abstract state: no native replay
        self.budget_s = budget_s

    def case_list(self):
        return self.cases if self.cases is not None else [()]

    def in_tier(self, case, tier):
        if tier == "thorough":
            return True
        if self.tier != "quick":
            return False
        return self.quick is None or bool(self.quick(*case))


def harness(prop, name=None, cases=None, tier="quick", float_mode="real", subst=None,
            feas_ms=1500, check_ms=20000, kind="contract", fp_refute=False, quick=None,
            state_only=False, budget_s=None, stubs=None, vacuous_ok=None, heavy=None):
    def deco(fn):
        h = Harness(fn, prop, name, cases, tier, float_mode, subst, feas_ms, check_ms, kind, fp_refute, quick, state_only, budget_s, stubs, vacuous_ok, heavy)
        REGISTRY.append(h)
        fn.__harness__ = h
        return fn
    return deco


NATIVE: list = []


class NativeCheck:
    """A check that runs the real code natively on concrete, seeded inputs.  Used for the
    parts of a property that rest on a *trusted* library contract (e.g. the logging
    format): it validates the assumed contract against the real code on every run.
    Bounded by construction; never counted as a discharged obligation."""

    def __init__(self, fn, prop, name, tier):
        self.fn, self.prop, self.name, self.tier = fn, prop, name or fn.__name__, tier


def native(prop, name=None, tier="quick"):
    def deco(fn):
        NATIVE.append(NativeCheck(fn, prop, name, tier))
        return fn
    return deco


STRUCTURAL: list = []


class Structural:
    """Obligations decided on the syntax of the current tree (frame / purity / handler-set /
    control-flow conditions): fn() -> [(label, ok, detail)].  Back end: 'syntactic'."""

    def __init__(self, fn, prop, name):
        self.fn, self.prop, self.name = fn, prop, name or fn.__name__


def structural(prop, name=None):
    def deco(fn):
        STRUCTURAL.append(Structural(fn, prop, name))
        return fn
    return deco
