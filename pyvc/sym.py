"""Symbolic value sorts of the pyvc engine.

Concrete Python values are used as they are; the classes below wrap z3 terms for the
parts that are symbolic.  Assumed semantics (DESIGN.md section 4): A1 ints are
mathematical (z3 Int), A2 floats are binary64 (two encodings, see SFloat), A3 strings
are sequences of code points (z3 Int per character, concrete length per path).
"""
from __future__ import annotations

import z3

I = z3.IntVal
TRUE = z3.BoolVal(True)
FALSE = z3.BoolVal(False)


class Unsupported(Exception):
    """The interpreted code left the supported subset: the path is *undecided*."""


class PathAbort(Exception):
    """assume() failed / path infeasible: silently drop the path."""


class PyRaise(Exception):
    """A Python-level exception raised by the interpreted program."""

    def __init__(self, value):
        super().__init__(repr(value))
        self.value = value  # real BaseException instance or SObj of an exception class


# ------------------------------------------------------------------------------------
class SBool:
    __slots__ = ("t",)

    def __init__(self, t):
        self.t = t

    def __repr__(self):
        return f"SBool({self.t})"

    def __bool__(self):
        raise Unsupported("internal: python bool() of SBool (engine bug)")


class SInt:
    __slots__ = ("t",)

    def __init__(self, t):
        self.t = t

    def __repr__(self):
        return f"SInt({self.t})"

    def __bool__(self):
        raise Unsupported("internal: python bool() of SInt (engine bug)")


class SFloat:
    """binary64 value.

    mode 'real': t is a z3 Real (the rounded value, over-approximated by the relative
                 error bound); exact is the un-rounded real it was rounded from (or None)
    mode 'fp'  : t is a z3 FP(11,53) term; exact is None
    """

    __slots__ = ("t", "exact")

    def __init__(self, t, exact=None):
        self.t = t
        self.exact = exact

    def __repr__(self):
        return f"SFloat({self.t})"

    def __bool__(self):
        raise Unsupported("internal: python bool() of SFloat (engine bug)")


class SStr:
    """A string of concrete length; chars are python ints or z3 Int terms."""

    __slots__ = ("chars",)

    def __init__(self, chars):
        self.chars = tuple(chars)

    def __len__(self):
        return len(self.chars)

    def __repr__(self):
        return "SStr(" + "".join(
            chr(c) if isinstance(c, int) else "?" for c in self.chars
        ) + ")"


def mk_str(chars):
    """Normalise: all-concrete -> python str."""
    chars = tuple(chars)
    if all(isinstance(c, int) for c in chars):
        return "".join(map(chr, chars))
    return SStr(chars)


def str_chars(s):
    if isinstance(s, str):
        return tuple(ord(c) for c in s)
    if isinstance(s, SStr):
        return s.chars
    raise Unsupported(f"not a string: {type(s).__name__}")


def is_str(v):
    return isinstance(v, (str, SStr))


class SUnb:
    """A string of unknown (unbounded) length and content.  Only total library operations are
    defined on it (slicing, strip, partition, truthiness, len, ==): each yields fresh
    unconstrained results, a sound over-approximation.  A regex test on it forks; the
    'matches' side is handed over to the shaped-string harnesses (see regex_match)."""

    __slots__ = ("name",)

    def __init__(self, name):
        self.name = name

    def __repr__(self):
        return f"<SUnb {self.name}>"


class SAbsSet:
    """An abstract (unbounded) collection of 9-character ids: membership is an uninterpreted
    but functional predicate over the id's characters, plus elements appended later."""

    def __init__(self, name):
        import z3 as _z3
        self.name = name
        self.fn = _z3.Function(f"member_{name}", *([_z3.IntSort()] * 9), _z3.BoolSort())
        self.extra = []

    def __repr__(self):
        return f"<SAbsSet {self.name}>"


class SObj:
    """An instance of the real class `cls` whose attributes may be symbolic."""

    def __init__(self, cls, attrs=None):
        self.cls = cls
        self.attrs = attrs if attrs is not None else {}

    def __repr__(self):
        return f"<SObj {self.cls.__name__} {list(self.attrs)[:6]}>"


class SSet:
    """A set given by conditional members: [(elem, cond-term)]."""

    def __init__(self, members):
        self.members = list(members)

    def __repr__(self):
        return f"SSet({len(self.members)})"


class SFunc:
    """A function/lambda defined by interpreted code (closure)."""

    def __init__(self, node, env, glob, defcls, name, module):
        self.node = node
        self.env = env
        self.glob = glob
        self.defcls = defcls
        self.name = name
        self.module = module

    def __repr__(self):
        return f"<SFunc {self.name}>"


class SBound:
    """Bound method: func is a real python function object, SFunc or builtin marker."""

    def __init__(self, func, self_, defcls=None):
        self.func = func
        self.self_ = self_
        self.defcls = defcls

    def __repr__(self):
        return f"<SBound {getattr(self.func, '__name__', self.func)}>"


class SSuper:
    def __init__(self, cls, obj):
        self.cls = cls  # class after which lookup starts
        self.obj = obj


class SMatch:
    """Truthy result of a regex match on a symbolic string (groups unsupported)."""

    def __init__(self, string=None, pattern=None):
        self.string = string
        self.pattern = pattern


class Opaque:
    """Uninterpreted reference compared by identity only."""

    def __init__(self, name):
        self.name = name

    def __repr__(self):
        return f"<Opaque {self.name}>"


class SDt:
    """datetime with (possibly) symbolic fields."""

    __slots__ = ("y", "mo", "d", "h", "mi", "s", "us", "lin")

    def __init__(self, y=None, mo=None, d=None, h=0, mi=0, s=0, us=0, lin=None):
        self.y, self.mo, self.d, self.h, self.mi, self.s, self.us = y, mo, d, h, mi, s, us
        self.lin = lin  # alternative: microseconds since 0001-01-01 (int | SInt)

    def fields(self):
        return (self.y, self.mo, self.d, self.h, self.mi, self.s, self.us)


class STd:
    """timedelta as a total number of microseconds (int or SInt)."""

    __slots__ = ("us",)

    def __init__(self, us):
        self.us = us


def is_symbolic(v, _depth=0):
    """Deep check: does v contain anything symbolic / engine-owned?"""
    if isinstance(v, (SBool, SInt, SFloat, SStr, SObj, SSet, SFunc, SBound, SSuper,
                      SMatch, Opaque, SDt, STd, SUnb, SAbsSet)):
        return True
    if _depth > 6:
        return False
    if isinstance(v, (list, tuple, set, frozenset)):
        return any(is_symbolic(x, _depth + 1) for x in v)
    if isinstance(v, dict):
        return any(is_symbolic(x, _depth + 1) for x in v.values()) or any(
            is_symbolic(k, _depth + 1) for k in v.keys()
        )
    return False


def int_term(v):
    if isinstance(v, bool):
        return I(int(v))
    if isinstance(v, int):
        return I(v)
    if isinstance(v, SInt):
        return v.t
    if isinstance(v, SBool):
        return z3.If(v.t, I(1), I(0))
    raise Unsupported(f"int_term of {type(v).__name__}")


def bool_term(v):
    if isinstance(v, bool):
        return z3.BoolVal(v)
    if isinstance(v, SBool):
        return v.t
    raise Unsupported(f"bool_term of {type(v).__name__}")


def char_term(c):
    return I(c) if isinstance(c, int) else c


def simp(t):
    return z3.simplify(t)


def mk_bool(t):
    """Term -> python bool when it simplifies to a constant, else SBool."""
    t = z3.simplify(t)
    if z3.is_true(t):
        return True
    if z3.is_false(t):
        return False
    return SBool(t)


def mk_int(t):
    t = z3.simplify(t)
    if z3.is_int_value(t):
        return t.as_long()
    return SInt(t)


def And(*ts):
    ts = [t for t in ts if not (t is True)]
    if any(t is False for t in ts):
        return FALSE
    ts = [z3.BoolVal(t) if isinstance(t, bool) else t for t in ts]
    if not ts:
        return TRUE
    return ts[0] if len(ts) == 1 else z3.And(*ts)


def Or(*ts):
    ts = [t for t in ts if not (t is False)]
    if any(t is True for t in ts):
        return TRUE
    ts = [z3.BoolVal(t) if isinstance(t, bool) else t for t in ts]
    if not ts:
        return FALSE
    return ts[0] if len(ts) == 1 else z3.Or(*ts)


def str_eq_term(a, b):
    """Equality of two strings as a z3 Bool term (python bool if decidable)."""
    ca, cb = str_chars(a), str_chars(b)
    if len(ca) != len(cb):
        return FALSE
    conj = []
    for x, y in zip(ca, cb):
        if isinstance(x, int) and isinstance(y, int):
            if x != y:
                return FALSE
            continue
        conj.append(char_term(x) == char_term(y))
    return And(*conj)
