"""String models (A3, A4): shaped strings, formatting, int() parsing."""
from __future__ import annotations

import re

import z3

from . import regexc
from .sym import (
    And, Opaque, Or, PathAbort, PyRaise, SBool, SFloat, SInt, SObj, SStr, SUnb, Unsupported, char_term,
    int_term, is_str, mk_bool, mk_int, mk_str, str_chars, str_eq_term,
)

SPACE_RANGES = None
DIGIT_RANGES = None


def _init_tables():
    global SPACE_RANGES, DIGIT_RANGES
    if SPACE_RANGES is None:
        SPACE_RANGES = regexc.cat_ranges("space")
        DIGIT_RANGES = regexc.cat_ranges("digit")
        # every maximal block of decimals must be decades aligned to its start
        for lo, hi in DIGIT_RANGES:
            assert (hi - lo + 1) % 10 == 0, (lo, hi)
            for c in (lo, lo + 9, hi):
                assert int(chr(c)) == (c - lo) % 10


def is_space_term(c):
    _init_tables()
    return regexc.in_ranges(c, SPACE_RANGES)


def str_concat(parts):
    chars = []
    for p in parts:
        if isinstance(p, (Opaque, SUnb)):
            return Opaque("str")
        chars.extend(str_chars(p))
    return mk_str(chars)


# ---------------------------------------------------------------- int(s, base)
_DV_CACHE: dict = {}


def digit_value(c, base, ascii_only=False):
    """(valid-term, value-term) of one character as a digit of `base` (c: z3 Int)."""
    key = (c.get_id(), base, ascii_only)
    ent = _DV_CACHE.get(key)
    if ent is None or not ent[0].eq(c):
        ent = (c,) + _digit_value(c, base, ascii_only)
        _DV_CACHE[key] = ent
    return ent[1], ent[2]


def _digit_value(c, base, ascii_only=False):
    _init_tables()
    cases = [(z3.And(c >= 48, c <= 48 + min(base, 10) - 1), c - 48)]
    if base > 10:
        cases.append((z3.And(c >= 65, c <= 65 + base - 11), c - 55))
        cases.append((z3.And(c >= 97, c <= 97 + base - 11), c - 87))
    for lo, hi in ([] if ascii_only else DIGIT_RANGES):
        if lo == 48:
            continue
        v = (c - lo) % 10
        ok = z3.And(c >= lo, c <= hi)
        if base < 10:
            ok = z3.And(ok, v < base)
        cases.append((ok, v))
    valid = z3.Or(*[ok for ok, _ in cases])
    val = z3.IntVal(0)
    for ok, v in reversed(cases):
        val = z3.If(ok, v, val)
    return valid, val


def _digit_value_conc(ch, base):
    try:
        v = int(ch, 36) if ch.isascii() else int(ch)
    except ValueError:
        return None
    return v if v < base else None


def parse_int(it, s, base=10):
    if isinstance(s, (bytes, bytearray)):
        raise Unsupported("int(bytes)")
    if isinstance(base, SInt):
        raise Unsupported("symbolic base")
    chars = str_chars(s)
    if not chars:
        it.py_raise(ValueError, "invalid literal for int() with base %d: ''" % base)
    if base == 0 or not (2 <= base <= 36):
        raise Unsupported("int() base 0 / out of range")
    # provenance: the string is exactly the digits produced by one formatting call
    first = next((c for c in chars if not isinstance(c, int)), None)
    if first is not None:
        rec = it.ex.fmt_rec.get(first.get_id())
        if rec is not None and rec["base"] == base and len(rec["chars"]) == len(chars) and all(
                (a == b) if isinstance(a, int) or isinstance(b, int) else a.eq(b)
                for a, b in zip(rec["chars"], chars)) and not rec["neg"]:
            return mk_int(rec["mag"])
    valids, vals = [], []
    for c in chars:
        if isinstance(c, int):
            dv = _digit_value_conc(chr(c), base)
            valids.append(dv is not None)
            vals.append(dv if dv is not None else 0)
        else:
            d = it.ex.digit_of.get(c.get_id())
            if d is not None and d[1] <= base:
                valids.append(True)
                vals.append(d[0])
                continue
            ok, v = digit_value(c, base, ascii_only=c.get_id() in it.ex.ascii_chars)
            valids.append(ok)
            vals.append(v)
    allv = And(*[z3.BoolVal(v) if isinstance(v, bool) else v for v in valids])
    if it.decide(allv):
        acc = z3.IntVal(0)
        for v in vals:
            acc = acc * base + (z3.IntVal(v) if isinstance(v, int) else v)
        r = mk_int(acc)
        if isinstance(r, SInt):
            it.ex.parse_rec[r.t.get_id()] = {"t": r.t, "base": base, "digits": list(vals), "chars": list(chars)}
        return r
    # some character is not a digit: ValueError, unless it could be a tolerated extra
    extras = set("+-_")
    if base == 16:
        extras |= set("xX")
    if base == 8:
        extras |= set("oO")
    if base == 2:
        extras |= set("bB")
    bad = []
    for c, ok in zip(chars, valids):
        if isinstance(c, int):
            tol = chr(c) in extras or chr(c).isspace()
            bad.append((not ok) and not tol)
        else:
            tol = Or(*[c == ord(x) for x in extras], is_space_term(c))
            bad.append(z3.And(z3.Not(ok), z3.Not(tol)))
    anybad = Or(*[z3.BoolVal(b) if isinstance(b, bool) else b for b in bad])
    if it.decide(anybad):
        it.py_raise(ValueError, "invalid literal for int()")
    if not any(not isinstance(c, int) for c in chars):
        try:
            return int(s, base)
        except ValueError as e:
            raise PyRaise(e)
    raise Unsupported("int(): string may contain sign/whitespace/underscore (A4)")


# ---------------------------------------------------------------- int -> text
DIGITS = "0123456789abcdefghijklmnopqrstuvwxyz"


def _digit_char(d, base, upper):
    """char (int | term) of a digit value (int | term)"""
    if isinstance(d, int):
        ch = DIGITS[d]
        return ord(ch.upper() if upper else ch)
    if base <= 10:
        return 48 + d
    return z3.If(d < 10, 48 + d, (55 if upper else 87) + d)


def int_to_str(it, v, base=10, upper=False, minwidth=0):
    """Digits of an int in `base` (list of chars).  minwidth: zero-extend (0Nd / 0NX)."""
    t = int_term(v)
    negv = it.decide(t < 0)
    mag = z3.simplify(-t if negv else t)
    # provenance: v is the value parsed from a digit string of the same base
    rec = it.ex.parse_rec.get(t.get_id()) if not negv else None
    if rec is not None and rec["base"] != base:
        rec = None
    nd = None
    start = max(1, minwidth - (1 if negv else 0))
    if rec is not None and start >= len(rec["digits"]):
        nd = start
    else:
        for n in range(start, 40):
            if it.decide(mag < base ** n):
                nd = n
                break
    if nd is None:
        raise Unsupported("integer with >= 40 digits in formatting")
    digs = []
    if rec is not None:
        # mag < base^nd: the leading parsed digits (if any) are zero, the rest are the digits
        rd = rec["digits"]
        src = [0] * max(0, nd - len(rd)) + list(rd[max(0, len(rd) - nd):])
        for d in src:
            c = _digit_char(d, base, upper)
            if not isinstance(c, int):
                it.ex.digit_of[c.get_id()] = (d, base, c)
            digs.append(c)
    else:
        for i in reversed(range(nd)):
            d = (mag / (base ** i)) % base if i else mag % base
            d = z3.simplify(d)
            if z3.is_int_value(d):
                digs.append(_digit_char(d.as_long(), base, upper))
            else:
                c = _digit_char(d, base, upper)
                it.ex.digit_of[c.get_id()] = (d, base, c)
                digs.append(c)
    first = next((c for c in digs if not isinstance(c, int)), None)
    if first is not None:
        it.ex.fmt_rec[first.get_id()] = {"chars": list(digs), "mag": mag, "base": base, "neg": negv}
    return ([ord("-")] if negv else []) + digs


_SPEC = re.compile(r"^(?:(?P<fill>.)?(?P<align>[<>=^]))?(?P<sign>[-+ ])?(?P<alt>#)?(?P<zero>0)?"
                   r"(?P<width>\d+)?(?P<grp>[,_])?(?:\.(?P<prec>\d+))?(?P<type>[bcdeEfFgGnosxX%])?$")


def format_value(it, val, spec, conv=None):
    """format(val, spec) with optional !r/!s conversion -> str | SStr."""
    from . import models
    if conv == "r":
        val = models.repr_(it, val)
    elif conv == "s":
        val = models.str_(it, val)
    elif conv == "a":
        raise Unsupported("!a conversion")
    if isinstance(val, Opaque):
        return val
    from .sym import is_symbolic
    if not is_symbolic(val):
        try:
            return format(val, spec)
        except Exception as e:  # noqa: BLE001
            raise PyRaise(e)
    m = _SPEC.match(spec)
    if m is None:
        raise Unsupported(f"format spec {spec!r}")
    g = m.groupdict()
    if g["sign"] or g["alt"] or g["grp"] or g["prec"]:
        raise Unsupported(f"format spec {spec!r}")
    width = int(g["width"]) if g["width"] else 0
    typ = g["type"]
    fill, align = g["fill"], g["align"]
    if isinstance(val, (SInt, SBool)) :
        if isinstance(val, SBool) and typ is None:
            s = models.str_(it, val)
            return _pad(str_chars(s), width, fill or " ", align or "<")
        base = {None: 10, "d": 10, "X": 16, "x": 16, "b": 2, "o": 8, "n": 10}.get(typ)
        if base is None:
            raise Unsupported(f"format type {typ} for int")
        if g["zero"] and not align:
            fill, align = "0", "="
        zero_ext = width if (fill == "0" and align == "=") else 0
        digs = int_to_str(it, val, base, upper=(typ == "X"), minwidth=zero_ext)
        return _pad(digs, width, fill or " ", align or ">")
    if isinstance(val, SStr):
        if typ not in (None, "s"):
            it.py_raise(ValueError, f"Unknown format code '{typ}' for object of type 'str'")
        if g["zero"] and not align:
            fill, align = "0", "<"
        return _pad(val.chars, width, fill or " ", align or "<")
    if isinstance(val, SFloat):
        raise Unsupported("formatting a symbolic float")
    if isinstance(val, SObj):
        if spec:
            raise Unsupported("format spec on object")
        return models.str_(it, val)
    raise Unsupported(f"format of {type(val).__name__}")


def _pad(chars, width, fill, align):
    chars = list(chars)
    n = len(chars)
    if n >= width:
        return mk_str(chars)
    padn = width - n
    f = ord(fill)
    if align == "<":
        return mk_str(chars + [f] * padn)
    if align == ">":
        return mk_str([f] * padn + chars)
    if align == "^":
        left = padn // 2
        return mk_str([f] * left + chars + [f] * (padn - left))
    if align == "=":
        if chars and isinstance(chars[0], int) and chars[0] in (43, 45):
            return mk_str([chars[0]] + [f] * padn + chars[1:])
        return mk_str([f] * padn + chars)
    raise Unsupported("align")


# ---------------------------------------------------------------- str methods
def ch_eq(c, k):
    """c == k for a char (int | term) and a concrete code point."""
    if isinstance(c, int):
        return c == k
    return c == k


def decide_ch(it, t):
    return t if isinstance(t, bool) else it.decide(t)


def s_strip(it, s, chars=None, left=True, right=True):
    if isinstance(s, SUnb):
        return SUnb(s.name + "_strip")
    cs = list(str_chars(s))
    if chars is None:
        pred = lambda c: (chr(c).isspace() if isinstance(c, int) else is_space_term(c))  # noqa: E731
    else:
        if not isinstance(chars, str):
            raise Unsupported("strip(symbolic chars)")
        ks = [ord(x) for x in chars]
        pred = lambda c: ((c in ks) if isinstance(c, int) else Or(*[c == k for k in ks]))  # noqa: E731
    i, j = 0, len(cs)
    if left:
        while i < j and decide_ch(it, pred(cs[i])):
            i += 1
    if right:
        while j > i and decide_ch(it, pred(cs[j - 1])):
            j -= 1
    return mk_str(cs[i:j])


def s_find(it, s, sub, start=0):
    """Index of the first occurrence (python int, by forking) or -1."""
    cs, ks = str_chars(s), str_chars(sub)
    n, m = len(cs), len(ks)
    for i in range(start, n - m + 1):
        t = And(*[_ceq(cs[i + j], ks[j]) for j in range(m)])
        if decide_ch(it, _tb(t)):
            return i
    return -1


def _ceq(a, b):
    if isinstance(a, int) and isinstance(b, int):
        return a == b
    return char_term(a) == char_term(b)


def _tb(t):
    if isinstance(t, bool):
        return t
    t = z3.simplify(t)
    if z3.is_true(t):
        return True
    if z3.is_false(t):
        return False
    return t


def s_split(it, s, sep=None, maxsplit=-1):
    if isinstance(maxsplit, SInt):
        raise Unsupported("symbolic maxsplit")
    cs = str_chars(s)
    if sep is None:
        # whitespace split
        out, cur = [], []
        n = 0
        i = 0
        L = len(cs)
        while i < L:
            c = cs[i]
            sp = decide_ch(it, chr(c).isspace() if isinstance(c, int) else is_space_term(c))
            if sp:
                if cur:
                    out.append(mk_str(cur))
                    cur = []
                    n += 1
                    if maxsplit >= 0 and n >= maxsplit:
                        rest = s_strip(it, mk_str(cs[i:]), left=True, right=False)
                        if len(rest):
                            out.append(rest)
                        return out
            else:
                cur.append(c)
            i += 1
        if cur:
            out.append(mk_str(cur))
        return out
    if not is_str(sep) or len(str_chars(sep)) == 0:
        it.py_raise(ValueError, "empty separator")
    ks = str_chars(sep)
    out = []
    start = 0
    i = 0
    n = 0
    L, m = len(cs), len(ks)
    while i <= L - m:
        if maxsplit >= 0 and n >= maxsplit:
            break
        t = And(*[_ceq(cs[i + j], ks[j]) for j in range(m)])
        if decide_ch(it, _tb(t)):
            out.append(mk_str(cs[start:i]))
            i += m
            start = i
            n += 1
        else:
            i += 1
    out.append(mk_str(cs[start:]))
    return out


def s_partition(it, s, sep):
    if isinstance(s, SUnb):
        if not isinstance(sep, str) or not sep:
            raise Unsupported("partition of unbounded string by symbolic separator")
        if it.decide(z3.Bool(it.ex.fresh_name("unb_has_sep"))):
            return (SUnb(s.name + "_head"), sep, SUnb(s.name + "_tail"))
        return (s, "", "")
    i = s_find(it, s, sep)
    cs = str_chars(s)
    if i < 0:
        return (mk_str(cs), "", "")
    m = len(str_chars(sep))
    return (mk_str(cs[:i]), sep, mk_str(cs[i + m:]))


def s_upper(it, s, upper=True):
    out = []
    for c in str_chars(s):
        if isinstance(c, int):
            r = chr(c).upper() if upper else chr(c).lower()
            if len(r) != 1:
                raise Unsupported("case mapping changes length")
            out.append(ord(r))
        else:
            # only ASCII is modelled exactly; non-ASCII letters -> outside subset
            if not it.decide(c < 128):
                raise Unsupported("upper()/lower() of symbolic non-ASCII char")
            if upper:
                out.append(z3.If(z3.And(c >= 97, c <= 122), c - 32, c))
            else:
                out.append(z3.If(z3.And(c >= 65, c <= 90), c + 32, c))
    return mk_str(out)


def s_startswith(it, s, prefix, end=False):
    if isinstance(prefix, tuple):
        r = False
        from . import models
        for p in prefix:
            r = models.or_values(it, r, s_startswith(it, s, p, end))
        return r
    cs, ks = str_chars(s), str_chars(prefix)
    if len(ks) > len(cs):
        return False
    seg = cs[len(cs) - len(ks):] if end else cs[:len(ks)]
    return mk_bool_t(And(*[_ceq(a, b) for a, b in zip(seg, ks)]))


def mk_bool_t(t):
    if isinstance(t, bool):
        return t
    return mk_bool(t)


def s_contains(it, s, sub):
    cs, ks = str_chars(s), str_chars(sub)
    n, m = len(cs), len(ks)
    if m == 0:
        return True
    if m > n:
        return False
    return mk_bool_t(Or(*[And(*[_ceq(cs[i + j], ks[j]) for j in range(m)]) for i in range(n - m + 1)]))


def s_replace(it, s, old, new, count=-1):
    cs, ks = str_chars(s), str_chars(old)
    ns = list(str_chars(new))
    if not ks:
        raise Unsupported("replace with empty pattern")
    out = []
    i = 0
    L, m = len(cs), len(ks)
    n = 0
    while i < L:
        if i <= L - m and (count < 0 or n < count):
            t = And(*[_ceq(cs[i + j], ks[j]) for j in range(m)])
            if decide_ch(it, _tb(t)):
                out.extend(ns)
                i += m
                n += 1
                continue
        out.append(cs[i])
        i += 1
    return mk_str(out)


def s_order(it, op, a, b):
    """Lexicographic comparison of two shaped strings."""
    ca, cb = str_chars(a), str_chars(b)
    n = min(len(ca), len(cb))
    # build lt / eq terms right-to-left
    if len(ca) < len(cb):
        lt, eq = True, False
    elif len(ca) == len(cb):
        lt, eq = False, True
    else:
        lt, eq = False, False
    lt_t = z3.BoolVal(lt)
    eq_t = z3.BoolVal(eq)
    for i in reversed(range(n)):
        x, y = char_term(ca[i]), char_term(cb[i])
        lt_t = z3.Or(x < y, z3.And(x == y, lt_t))
        eq_t = z3.And(x == y, eq_t)
    t = {"<": lt_t, "<=": z3.Or(lt_t, eq_t), ">": z3.Not(z3.Or(lt_t, eq_t)), ">=": z3.Not(lt_t)}[op]
    return mk_bool(t)


def s_isdigit(it, s, kind="isdigit"):
    cs = str_chars(s)
    if not cs:
        return False
    if kind == "isdecimal":
        _init_tables()
        return mk_bool_t(And(*[regexc.in_ranges(c, DIGIT_RANGES) for c in cs]))
    # isdigit also accepts superscripts etc.: exact only for ASCII
    for c in cs:
        if not isinstance(c, int) and not it.decide(c < 128):
            raise Unsupported("isdigit on symbolic non-ASCII")
    return mk_bool_t(And(*[(48 <= c <= 57) if isinstance(c, int) else z3.And(c >= 48, c <= 57) for c in cs]))


def regex_match(it, pattern, string, mode):
    """pattern: compiled re.Pattern (str pattern); string: str | SStr."""
    from .sym import SMatch
    if isinstance(pattern.pattern, bytes):
        raise Unsupported("bytes regex")
    if isinstance(string, SUnb):
        # an unbounded string: the regex either fails, or it matches -- and then the string
        # is one of the shaped strings (its length is in accepted_lengths(pattern), computed
        # exactly from the NFA), which the shaped-string harnesses of the same property cover
        if it.decide(z3.Bool(it.ex.fresh_name("unb_regex_matches"))):
            it.ex.run_notes.append(f"handover: {pattern.pattern[:40]} matched an unbounded string")
            it.ex.handovers = getattr(it.ex, "handovers", 0) + 1
            raise PathAbort("regex matched an unbounded string: covered by the shaped-string harnesses")
        return None
    if not isinstance(string, SStr):
        if isinstance(string, str):
            return getattr(pattern, mode)(string)
        it.py_raise(TypeError, "expected string or bytes-like object")
    t = regexc.match_term(pattern.pattern, pattern.flags, string.chars, mode)
    if isinstance(t, bool):
        ok = t
    else:
        ok = it.decide(t)
    return SMatch(string, pattern) if ok else None
