"""Models of builtins / str / dict / list methods, and the api intrinsics."""
from __future__ import annotations

import builtins
import re
import types

import z3

from . import api, front, m_num, m_str, models as M
from .sym import (
    FALSE, TRUE, And, Opaque, Or, PathAbort, PyRaise, SBool, SBound, SDt, SFloat, SFunc,
    SInt, SMatch, SObj, SSet, SStr, SSuper, STd, SUnb, Unsupported, bool_term, char_term,
    int_term, is_str, is_symbolic, mk_bool, mk_int, mk_str, str_chars, str_eq_term,
)

model = M.model


def _concrete(args, kwargs=None):
    return not is_symbolic(args) and not is_symbolic(kwargs or {})


# ------------------------------------------------------------------ builtins
@model(len)
def m_len(it, args, kw):
    (v,) = args
    if isinstance(v, (SStr,)):
        return len(v.chars)
    if isinstance(v, SUnb):
        t = z3.Int(it.ex.fresh_name(f"{v.name}_len"))
        it.ex.add_fact(t >= 0)
        return SInt(t)
    if isinstance(v, (list, tuple, dict, str, set, frozenset, bytes, bytearray, range)) or type(v).__name__ == "deque":
        return len(v)
    if isinstance(v, SObj):
        um = M._user_method(it, v, "__len__")
        if um:
            return it.call(SBound(um[0], v, um[1]), [], {})
        it.py_raise(TypeError, f"object of type '{v.cls.__name__}' has no len()")
    if isinstance(v, SSet):
        raise Unsupported("len of symbolic set")
    if isinstance(v, (SInt, SBool, SFloat)) or v is None:
        it.py_raise(TypeError, f"object of type '{M.type_of(v).__name__}' has no len()")
    if isinstance(v, types.GeneratorType):
        it.py_raise(TypeError, "object of type 'generator' has no len()")
    return it.call_real(len, [v], {})


@model(int)
def m_int(it, args, kw):
    if kw:
        if "base" in kw:
            args = list(args) + [kw["base"]]
        else:
            raise Unsupported("int kwargs")
    if not args:
        return 0
    v = args[0]
    if len(args) == 2:
        if not is_str(v):
            it.py_raise(TypeError, "int() can't convert non-string with explicit base")
        if isinstance(v, str) and isinstance(args[1], int):
            return it.call_real(int, [v, args[1]], {})
        return m_str.parse_int(it, v, args[1])
    if isinstance(v, (SInt,)):
        return v
    if isinstance(v, SBool):
        return mk_int(int_term(v))
    if isinstance(v, (SFloat, float)):
        return m_num.float_to_int(it, v)
    if isinstance(v, SStr):
        return m_str.parse_int(it, v, 10)
    if isinstance(v, (SObj, Opaque)) or v is None:
        if v is None:
            it.py_raise(TypeError, "int() argument must be a string, a bytes-like object or a real number, not 'NoneType'")
        raise Unsupported("int(object)")
    return it.call_real(int, [v], {})


@model(float)
def m_float(it, args, kw):
    if not args:
        return 0.0
    v = args[0]
    if m_num.is_num(v):
        return m_num.to_float(it, v)
    if isinstance(v, SStr):
        raise Unsupported("float(symbolic str)")
    return it.call_real(float, [v], {})


@model(bool)
def m_bool(it, args, kw):
    if not args:
        return False
    return M.as_bool_value(it, args[0])


@model(str)
def m_str_(it, args, kw):
    if not args:
        return ""
    if len(args) > 1 or kw:
        if _concrete(args, kw):
            return it.call_real(str, args, kw)
        raise Unsupported("str(bytes, encoding) symbolic")
    return M.str_(it, args[0])


@model(repr)
def m_repr(it, args, kw):
    return M.repr_(it, args[0])


@model(ascii)
def m_ascii(it, args, kw):
    if _concrete(args):
        return ascii(args[0])
    raise Unsupported("ascii()")


@model(format)
def m_format(it, args, kw):
    return M.format_value(it, args[0], args[1] if len(args) > 1 else "")


@model(isinstance)
def m_isinstance(it, args, kw):
    v, t = args
    return _isinst(it, M.type_of(v), t, v)


def _isinst(it, vt, t, v=None):
    if isinstance(t, tuple):
        return any(_isinst(it, vt, x, v) for x in t)
    if isinstance(t, types.UnionType):
        return any(_isinst(it, vt, x, v) for x in t.__args__)
    if t is type(None):
        return v is None
    if isinstance(t, type):
        if vt is types.FunctionType and t in (types.FunctionType,):
            return True
        try:
            return issubclass(vt, t)
        except TypeError:
            pass
    if hasattr(t, "__origin__"):
        return _isinst(it, vt, t.__origin__, v)
    if not is_symbolic(v):
        return isinstance(v, t)
    raise Unsupported(f"isinstance(.., {t!r})")


@model(issubclass)
def m_issubclass(it, args, kw):
    return it.call_real(issubclass, args, kw)


@model(type)
def m_type(it, args, kw):
    if len(args) == 1:
        return M.type_of(args[0])
    raise Unsupported("type(name, bases, dict)")


@model(hasattr)
def m_hasattr(it, args, kw):
    o, n = args
    try:
        it.getattr_(o, n)
        return True
    except PyRaise as e:
        if issubclass(M.type_of(e.value), AttributeError):
            return False
        raise


@model(getattr)
def m_getattr(it, args, kw):
    o, n = args[0], args[1]
    if not isinstance(n, str):
        raise Unsupported("getattr with symbolic name")
    try:
        return it.getattr_(o, n)
    except PyRaise as e:
        if len(args) > 2 and issubclass(M.type_of(e.value), AttributeError):
            return args[2]
        raise


@model(setattr)
def m_setattr(it, args, kw):
    o, n, v = args
    if not isinstance(n, str):
        raise Unsupported("setattr with symbolic name")
    it.setattr_(o, n, v)


@model(callable)
def m_callable(it, args, kw):
    v = args[0]
    if isinstance(v, (SFunc, SBound)):
        return True
    if isinstance(v, (SObj,)):
        return it.class_lookup(v.cls, "__call__") is not None
    if is_symbolic(v):
        return False
    return callable(v)


@model(id)
def m_id(it, args, kw):
    return id(args[0])


@model(hash)
def m_hash(it, args, kw):
    if _concrete(args):
        return it.call_real(hash, args, {})
    raise Unsupported("hash of symbolic value")


@model(print)
def m_print(it, args, kw):
    return None


@model(range)
def m_range(it, args, kw):
    if _concrete(args):
        return it.call_real(range, args, kw)
    raise Unsupported("range with symbolic bound")


@model(enumerate)
def m_enumerate(it, args, kw):
    start = kw.get("start", args[1] if len(args) > 1 else 0)
    return [(start + i, v) for i, v in enumerate(M.iterate(it, args[0]))]


@model(zip)
def m_zip(it, args, kw):
    seqs = [list(M.iterate(it, a)) for a in args]
    if kw.get("strict") and len({len(s) for s in seqs}) > 1:
        it.py_raise(ValueError, "zip() arguments have different lengths")
    return list(zip(*seqs))


@model(reversed)
def m_reversed(it, args, kw):
    return list(reversed(list(M.iterate(it, args[0]))))


@model(list)
def m_list(it, args, kw):
    if not args:
        return []
    return list(M.iterate(it, args[0]))


@model(tuple)
def m_tuple(it, args, kw):
    if not args:
        return ()
    return tuple(M.iterate(it, args[0]))


@model(set, frozenset)
def m_set(it, args, kw):
    if not args:
        return set()
    items = list(M.iterate(it, args[0]))
    if not is_symbolic(items):
        return set(items)
    return SSet([(x, TRUE) for x in items])


@model(dict)
def m_dict(it, args, kw):
    d = {}
    if args:
        src = args[0]
        if isinstance(src, dict):
            for k, v in src.items():
                M.dict_set(it, d, k, v)
        else:
            for pair in M.iterate(it, src):
                k, v = list(M.iterate(it, pair))
                M.dict_set(it, d, k, v)
    for k, v in kw.items():
        d[k] = v
    return d


@model(sum)
def m_sum(it, args, kw):
    acc = args[1] if len(args) > 1 else kw.get("start", 0)
    import ast
    for v in M.iterate(it, args[0]):
        acc = M.binop(it, ast.Add(), acc, v)
    return acc


def _minmax(it, args, kw, op):
    if "key" in kw and kw["key"] is not None:
        keyf = kw["key"]
    else:
        keyf = None
    items = list(M.iterate(it, args[0])) if len(args) == 1 else list(args)
    if not items:
        if "default" in kw:
            return kw["default"]
        it.py_raise(ValueError, "min()/max() arg is an empty sequence")
    best = items[0]
    bk = it.call(keyf, [best], {}) if keyf else best
    for x in items[1:]:
        xk = it.call(keyf, [x], {}) if keyf else x
        if it.truth(M.order(it, op, xk, bk)):
            best, bk = x, xk
    return best


@model(min)
def m_min(it, args, kw):
    return _minmax(it, args, kw, "<")


@model(max)
def m_max(it, args, kw):
    return _minmax(it, args, kw, ">")


@model(any)
def m_any(it, args, kw):
    for v in M.iterate(it, args[0]):
        if it.truth(v):
            return True
    return False


@model(all)
def m_all(it, args, kw):
    for v in M.iterate(it, args[0]):
        if not it.truth(v):
            return False
    return True


@model(abs)
def m_abs(it, args, kw):
    v = args[0]
    if isinstance(v, (SInt, SBool)):
        t = int_term(v)
        return mk_int(z3.If(t >= 0, t, -t))
    if isinstance(v, SFloat):
        if it.float_mode == "real":
            return SFloat(z3.If(v.t >= 0, v.t, -v.t))
        return SFloat(z3.fpAbs(v.t))
    if isinstance(v, STd):
        from . import m_dt
        return STd(m_abs(it, [v.us], {}))
    return it.call_real(abs, [v], {})


def _floor_ceil(up):
    def m(it, args, kw):
        import math
        v = args[0]
        if isinstance(v, (SInt, SBool)):
            return mk_int(int_term(v))
        if isinstance(v, SFloat):
            if it.float_mode != "real":
                raise Unsupported("math.floor/ceil of a symbolic float in fp mode")
            t = v.t
            fl = z3.ToInt(t)  # z3's to_int is floor
            return mk_int(-z3.ToInt(-t) if up else fl)
        return it.call_real(math.ceil if up else math.floor, list(args), kw)
    return m


import math as _math  # noqa: E402
M.MODELS[_math.floor] = _floor_ceil(False)
M.MODELS[_math.ceil] = _floor_ceil(True)


@model(round)
def m_round(it, args, kw):
    v = args[0]
    nd = args[1] if len(args) > 1 else kw.get("ndigits")
    if isinstance(v, (SInt, SBool)):
        if nd is None or (isinstance(nd, int) and nd >= 0):
            return mk_int(int_term(v))
        raise Unsupported("round(int, negative)")
    if isinstance(v, (SFloat, float)):
        if isinstance(v, float) and not isinstance(nd, SInt):
            return it.call_real(round, list(args), kw)
        return m_num.float_round(it, v, nd)
    return it.call_real(round, list(args), kw)


@model(divmod)
def m_divmod(it, args, kw):
    import ast
    a, b = args
    return (M.binop(it, ast.FloorDiv(), a, b), M.binop(it, ast.Mod(), a, b))


@model(pow)
def m_pow(it, args, kw):
    import ast
    if len(args) == 2:
        return M.binop(it, ast.Pow(), args[0], args[1])
    return it.call_real(pow, args, kw)


@model(ord)
def m_ord(it, args, kw):
    v = args[0]
    if is_str(v):
        cs = str_chars(v)
        if len(cs) != 1:
            it.py_raise(TypeError, "ord() expected a character")
        return cs[0] if isinstance(cs[0], int) else SInt(cs[0])
    return it.call_real(ord, args, kw)


@model(chr)
def m_chr(it, args, kw):
    v = args[0]
    if isinstance(v, SInt):
        if not it.decide(z3.And(v.t >= 0, v.t <= 0x10FFFF)):
            it.py_raise(ValueError, "chr() arg not in range(0x110000)")
        return SStr([v.t])
    return it.call_real(chr, args, kw)


@model(hex)
def m_hex(it, args, kw):
    v = args[0]
    if isinstance(v, SInt):
        digs = m_str.int_to_str(it, v, 16)
        if digs and digs[0] == 45:
            return mk_str([45, 48, 120] + digs[1:])
        return mk_str([48, 120] + digs)
    return it.call_real(hex, args, kw)


@model(sorted)
def m_sorted(it, args, kw):
    items = list(M.iterate(it, args[0]))
    keyf = kw.get("key")
    rev = kw.get("reverse", False)
    keys = [it.call(keyf, [x], {}) if keyf else x for x in items]
    # insertion sort with symbolic comparisons (forks)
    out = []
    for x, k in zip(items, keys):
        i = len(out)
        while i > 0 and it.truth(M.order(it, "<", k, out[i - 1][1])):
            i -= 1
        out.insert(i, (x, k))
    res = [x for x, _ in out]
    if rev:
        res.reverse()
    return res


@model(filter)
def m_filter(it, args, kw):
    f, seq = args
    out = []
    for x in M.iterate(it, seq):
        if it.truth(x if f is None else it.call(f, [x], {})):
            out.append(x)
    return out


@model(map)
def m_map(it, args, kw):
    f = args[0]
    seqs = [list(M.iterate(it, a)) for a in args[1:]]
    return [it.call(f, list(xs), {}) for xs in zip(*seqs)]


@model(iter)
def m_iter(it, args, kw):
    return iter(list(M.iterate(it, args[0])))


@model(next)
def m_next(it, args, kw):
    g = args[0]
    try:
        return builtins.next(g)
    except StopIteration as e:
        if len(args) > 1:
            return args[1]
        raise PyRaise(e)


@model(bytearray.fromhex, bytes.fromhex)
def m_fromhex(it, args, kw):
    s = args[-1]
    if isinstance(s, str):
        return it.call_real(bytearray.fromhex, [s], {})
    cs = s.chars
    # spaces are tolerated by fromhex between bytes: outside the subset unless excluded
    out = []
    if len(cs) % 2:
        # odd number of hex digits (no whitespace) -> ValueError
        pass
    vals = []
    for c in cs:
        if isinstance(c, int):
            ch = chr(c)
            if ch in "0123456789abcdefABCDEF":
                vals.append(int(ch, 16))
            elif ch.isspace():
                raise Unsupported("fromhex with whitespace")
            else:
                it.py_raise(ValueError, "non-hexadecimal number found in fromhex() arg")
        else:
            ishex = z3.Or(z3.And(c >= 48, c <= 57), z3.And(c >= 65, c <= 70), z3.And(c >= 97, c <= 102))
            if not it.decide(ishex):
                if it.decide(m_str.is_space_term(c)):
                    raise Unsupported("fromhex with whitespace")
                it.py_raise(ValueError, "non-hexadecimal number found in fromhex() arg")
            vals.append(z3.If(c <= 57, c - 48, z3.If(c <= 70, c - 55, c - 87)))
    if len(vals) % 2:
        it.py_raise(ValueError, "non-hexadecimal number found in fromhex() arg")
    for i in range(0, len(vals), 2):
        a, b = vals[i], vals[i + 1]
        if isinstance(a, int) and isinstance(b, int):
            out.append(a * 16 + b)
        else:
            out.append(mk_int((z3.IntVal(a) if isinstance(a, int) else a) * 16 + (z3.IntVal(b) if isinstance(b, int) else b)))
    return SByteList(out)


class SByteList(list):
    """bytearray with symbolic elements (list of ints)."""


@model(bytearray, bytes)
def m_bytearray(it, args, kw):
    if _concrete(args, kw):
        return it.call_real(bytearray, args, kw)
    if len(args) == 1 and isinstance(args[0], (list, SByteList)):
        return SByteList(args[0])
    raise Unsupported("bytearray(symbolic)")


@model(bytearray.decode, bytes.decode)
def m_bdecode(it, args, kw):
    b = args[0]
    enc = args[1] if len(args) > 1 else kw.get("encoding", "utf-8")
    if not isinstance(b, SByteList):
        return it.call_real(type(b).decode, list(args), kw)
    if enc not in ("ascii", "utf-8", "utf8", "latin-1"):
        raise Unsupported(f"decode({enc})")
    chars = []
    for x in b:
        if isinstance(x, int):
            if x >= 128 and enc != "latin-1":
                if enc == "ascii":
                    it.py_raise(UnicodeDecodeError, "ascii", b"", 0, 1, "ordinal not in range(128)")
                raise Unsupported("utf-8 decode of non-ASCII byte")
            chars.append(x)
        else:
            if enc != "latin-1" and not it.decide(x.t < 128):
                if enc == "ascii":
                    it.py_raise(UnicodeDecodeError, "ascii", b"", 0, 1, "ordinal not in range(128)")
                raise Unsupported("utf-8 decode of non-ASCII byte")
            chars.append(x.t)
    return mk_str(chars)


# ------------------------------------------------------------------ str methods
@model(str.join)
def m_join(it, args, kw):
    sep, seq = args
    parts = []
    for i, x in enumerate(M.iterate(it, seq)):
        if not is_str(x) and not isinstance(x, Opaque):
            it.py_raise(TypeError, f"sequence item {i}: expected str instance")
        if i:
            parts.append(sep)
        parts.append(x)
    return M.str_concat(parts)


@model(str.split)
def m_split(it, args, kw):
    s = args[0]
    sep = args[1] if len(args) > 1 else kw.get("sep")
    mx = args[2] if len(args) > 2 else kw.get("maxsplit", -1)
    return m_str.s_split(it, s, sep, mx)


@model(str.strip)
def m_strip(it, args, kw):
    return m_str.s_strip(it, args[0], args[1] if len(args) > 1 else None)


@model(str.lstrip)
def m_lstrip(it, args, kw):
    return m_str.s_strip(it, args[0], args[1] if len(args) > 1 else None, right=False)


@model(str.rstrip)
def m_rstrip(it, args, kw):
    return m_str.s_strip(it, args[0], args[1] if len(args) > 1 else None, left=False)


@model(str.partition)
def m_partition(it, args, kw):
    return m_str.s_partition(it, args[0], args[1])


@model(str.upper)
def m_upper(it, args, kw):
    return m_str.s_upper(it, args[0], True)


@model(str.lower)
def m_lower(it, args, kw):
    return m_str.s_upper(it, args[0], False)


@model(str.startswith)
def m_startswith(it, args, kw):
    if len(args) > 2:
        raise Unsupported("startswith with offsets")
    return m_str.s_startswith(it, args[0], args[1])


@model(str.endswith)
def m_endswith(it, args, kw):
    if len(args) > 2:
        raise Unsupported("endswith with offsets")
    return m_str.s_startswith(it, args[0], args[1], end=True)


@model(str.replace)
def m_replace(it, args, kw):
    return m_str.s_replace(it, args[0], args[1], args[2], args[3] if len(args) > 3 else -1)


@model(str.find)
def m_find(it, args, kw):
    return m_str.s_find(it, args[0], args[1], args[2] if len(args) > 2 else 0)


@model(str.index)
def m_index(it, args, kw):
    r = m_str.s_find(it, args[0], args[1], args[2] if len(args) > 2 else 0)
    if r < 0:
        it.py_raise(ValueError, "substring not found")
    return r


@model(str.isdigit)
def m_isdigit(it, args, kw):
    return m_str.s_isdigit(it, args[0], "isdigit")


@model(str.isdecimal)
def m_isdecimal(it, args, kw):
    return m_str.s_isdigit(it, args[0], "isdecimal")


@model(str.format)
def m_strformat(it, args, kw):
    fmt = args[0]
    if not isinstance(fmt, str):
        raise Unsupported("symbolic format string")
    import string
    out = []
    auto = 0
    for lit, field, spec, conv in string.Formatter().parse(fmt):
        out.append(lit)
        if field is None:
            continue
        if field == "":
            v = args[1 + auto]
            auto += 1
        elif field.isdigit():
            v = args[1 + int(field)]
        elif field.isidentifier():
            v = kw[field]
        else:
            raise Unsupported("format field expression")
        try:
            out.append(M.format_value(it, v, spec or "", conv))
        except Unsupported:
            return Opaque("str")
    return M.str_concat(out)


@model(str.zfill)
def m_zfill(it, args, kw):
    s, w = args
    return m_str._pad(str_chars(s), w, "0", "=")


@model(str.ljust)
def m_ljust(it, args, kw):
    return m_str._pad(str_chars(args[0]), args[1], args[2] if len(args) > 2 else " ", "<")


@model(str.rjust)
def m_rjust(it, args, kw):
    return m_str._pad(str_chars(args[0]), args[1], args[2] if len(args) > 2 else " ", ">")


@model(str.encode)
def m_encode(it, args, kw):
    raise Unsupported("str.encode on symbolic string")


@model(str.__contains__)
def m_scontains(it, args, kw):
    return M.contains(it, args[0], args[1])


@model(str.count)
def m_count(it, args, kw):
    s, sub = args[0], args[1]
    return len(m_str.s_split(it, s, sub)) - 1


# ------------------------------------------------------------------ dict / list methods
@model(dict.get)
def m_dget(it, args, kw):
    d, k = args[0], args[1]
    if type(d).__name__ == "SAbsSet":  # an abstract mapping: a listed id maps to some (opaque) value
        default = args[2] if len(args) > 2 else kw.get("default")
        return {} if it.truth(M.absset_member(it, d, k)) else default
    default = args[2] if len(args) > 2 else kw.get("default")
    return M.dict_get(it, d, k, default=default)


@model(dict.pop)
def m_dpop(it, args, kw):
    d, k = args[0], args[1]
    if not is_symbolic(k):
        if k in d:
            return d.pop(k)
        if not is_symbolic(list(d.keys())):
            if len(args) > 2:
                return args[2]
            raise PyRaise(KeyError(k))
    for kk in list(d.keys()):
        if it.truth(M.eq(it, k, kk)):
            return d.pop(kk)
    if len(args) > 2:
        return args[2]
    raise PyRaise(it.make_exc(KeyError, [k]))


@model(dict.setdefault)
def m_dsetdefault(it, args, kw):
    d, k = args[0], args[1]
    default = args[2] if len(args) > 2 else None
    sentinel = object()
    r = M.dict_get(it, d, k, default=sentinel)
    if r is sentinel:
        M.dict_set(it, d, k, default)
        return default
    return r


@model(dict.update)
def m_dupdate(it, args, kw):
    d = args[0]
    if len(args) > 1:
        src = args[1]
        if isinstance(src, dict):
            for k, v in src.items():
                M.dict_set(it, d, k, v)
        else:
            for pair in M.iterate(it, src):
                k, v = list(M.iterate(it, pair))
                M.dict_set(it, d, k, v)
    for k, v in kw.items():
        d[k] = v


@model(dict.items)
def m_ditems(it, args, kw):
    return list(args[0].items())


@model(dict.keys)
def m_dkeys(it, args, kw):
    return list(args[0].keys())


@model(dict.values)
def m_dvalues(it, args, kw):
    return list(args[0].values())


@model(dict.copy)
def m_dcopy(it, args, kw):
    return dict(args[0])


@model(dict.__contains__)
def m_dcontains(it, args, kw):
    return M.contains(it, args[0], args[1])


@model(list.append)
def m_lappend(it, args, kw):
    if type(args[0]).__name__ == "SAbsSet":
        args[0].extra.append(args[1])
        return None
    args[0].append(args[1])


@model(dict.fromkeys)
def m_dfromkeys(it, args, kw):
    args = [a for a in args if a is not dict]
    d = {}
    for k in M.iterate(it, args[0]):
        M.dict_set(it, d, k, args[1] if len(args) > 1 else None)
    return d


@model(list.extend)
def m_lextend(it, args, kw):
    args[0].extend(M.iterate(it, args[1]))


@model(list.insert)
def m_linsert(it, args, kw):
    args[0].insert(args[1], args[2])


@model(list.pop)
def m_lpop(it, args, kw):
    lst = args[0]
    if not lst:
        it.py_raise(IndexError, "pop from empty list")
    if len(args) > 1:
        return lst.pop(M.norm_index(it, args[1], len(lst)))
    return lst.pop()


@model(list.index, tuple.index)
def m_lindex(it, args, kw):
    lst, x = args[0], args[1]
    for i, e in enumerate(lst):
        if it.truth(M.eq(it, x, e)):
            return i
    it.py_raise(ValueError, "x not in list")


@model(list.remove)
def m_lremove(it, args, kw):
    lst, x = args
    for i, e in enumerate(lst):
        if it.truth(M.eq(it, x, e)):
            del lst[i]
            return None
    it.py_raise(ValueError, "list.remove(x): x not in list")


@model(list.copy)
def m_lcopy(it, args, kw):
    return list(args[0])


@model(list.clear)
def m_lclear(it, args, kw):
    args[0].clear()


@model(list.sort)
def m_lsort(it, args, kw):
    lst = args[0]
    lst[:] = m_sorted(it, [lst], kw)


@model(list.count, tuple.count)
def m_lcount(it, args, kw):
    import ast
    n = 0
    for e in args[0]:
        n = M.binop(it, ast.Add(), n, mk_int(int_term(M.as_bool_value(it, M.eq(it, args[1], e)))) if is_symbolic((args[1], e)) else int(args[1] == e))
    return n


@model(set.add)
def m_sadd(it, args, kw):
    s, x = args
    if isinstance(s, SSet):
        s.members.append((x, TRUE))
        return None
    if is_symbolic(x):
        raise Unsupported("set.add(symbolic) on concrete set")
    s.add(x)


# ------------------------------------------------------------------ regex
@model(re.Pattern.match)
def m_rematch(it, args, kw):
    return m_str.regex_match(it, args[0], args[1], "match")


@model(re.Pattern.fullmatch)
def m_refullmatch(it, args, kw):
    return m_str.regex_match(it, args[0], args[1], "fullmatch")


@model(re.Pattern.search)
def m_research(it, args, kw):
    return m_str.regex_match(it, args[0], args[1], "search")


@model(re.compile)
def m_recompile(it, args, kw):
    if _concrete(args, kw):
        return it.call_real(re.compile, args, kw)
    raise Unsupported("re.compile(symbolic)")


@model(re.match)
def m_re_match(it, args, kw):
    if not isinstance(args[0], str):
        raise Unsupported("re.match with symbolic pattern")
    return m_str.regex_match(it, re.compile(args[0], *(args[2:])), args[1], "match")


@model(re.search)
def m_re_search(it, args, kw):
    return m_str.regex_match(it, re.compile(args[0], *(args[2:])), args[1], "search")


@model(re.fullmatch)
def m_re_fullmatch(it, args, kw):
    return m_str.regex_match(it, re.compile(args[0], *(args[2:])), args[1], "fullmatch")


@model(BaseException.__init__, Exception.__init__)
def m_exc_init(it, args, kw):
    o = args[0]
    if isinstance(o, SObj):
        o.attrs["args"] = tuple(args[1:])
        return None
    return it.call_real(BaseException.__init__, list(args), kw)


# ------------------------------------------------------------------ struct (A12: format characters < x B H)
import struct as _struct  # noqa: E402


def _struct_fields(fmt):
    if not isinstance(fmt, str) or not fmt.startswith("<") or any(c not in "xBH" for c in fmt[1:]):
        raise Unsupported(f"struct format {fmt!r}")
    return fmt[1:]


@model(_struct.pack)
def m_struct_pack(it, args, kw):
    if _concrete(args):
        return it.call_real(_struct.pack, list(args), kw)
    fields = _struct_fields(args[0])
    vals = list(args[1:])
    out = []
    for c in fields:
        if c == "x":
            out.append(0)
            continue
        if not vals:
            it.py_raise(_struct.error, "pack expected more items for packing")
        v = vals.pop(0)
        if not isinstance(v, (int, SInt, SBool)) or isinstance(v, bool) and False:
            it.py_raise(_struct.error, "required argument is not an integer")
        t = int_term(v)
        hi = 255 if c == "B" else 65535
        if not it.decide(z3.And(t >= 0, t <= hi)):
            it.py_raise(_struct.error, f"'{c}' format requires 0 <= number <= {hi}")
        if c == "B":
            out.append(mk_int(t))
        else:
            out.append(mk_int(t % 256))
            out.append(mk_int(t / 256))
    if vals:
        it.py_raise(_struct.error, "pack got too many items")
    return SByteList(out)


@model(_struct.unpack)
def m_struct_unpack(it, args, kw):
    if _concrete(args):
        return it.call_real(_struct.unpack, list(args), kw)
    fields = _struct_fields(args[0])
    data = list(args[1])
    need = sum(2 if c == "H" else 1 for c in fields)
    if len(data) != need:
        it.py_raise(_struct.error, f"unpack requires a buffer of {need} bytes")
    out, i = [], 0
    for c in fields:
        if c == "x":
            i += 1
        elif c == "B":
            out.append(data[i])
            i += 1
        else:
            out.append(mk_int(int_term(data[i]) + 256 * int_term(data[i + 1])))
            i += 2
    return tuple(out)


# ------------------------------------------------------------------ functools / collections
import collections  # noqa: E402
import functools  # noqa: E402


@model(functools.wraps)
def m_wraps(it, args, kw):
    return lambda f: f  # metadata copying only


@model(functools.update_wrapper)
def m_update_wrapper(it, args, kw):
    return args[0]


@model(collections.OrderedDict)
def m_ordereddict(it, args, kw):
    return m_dict(it, args, kw)  # insertion-ordered like dict (A5)


@model(collections.deque)
def m_deque(it, args, kw):
    items = list(M.iterate(it, args[0])) if args else []
    maxlen = args[1] if len(args) > 1 else kw.get("maxlen")
    return collections.deque(items, maxlen=maxlen)


# ------------------------------------------------------------------ asyncio (A13, A14)
import asyncio  # noqa: E402


class SSleep:
    """Result of asyncio.sleep(delay), to be awaited: a cut point between atomic segments."""

    def __init__(self, delay, result=None):
        self.delay = delay
        self.result = result


@model(asyncio.sleep)
def m_asleep(it, args, kw):
    return SSleep(args[0] if args else kw.get("delay", 0), args[1] if len(args) > 1 else kw.get("result"))


# ------------------------------------------------------------------ logging (A7)
import logging  # noqa: E402

for _nm in ("debug", "info", "warning", "error", "exception", "critical", "log"):
    M.MODELS[getattr(logging.Logger, _nm)] = (lambda it, args, kw: None)
M.MODELS[logging.Logger.isEnabledFor] = (lambda it, args, kw: False)


# ------------------------------------------------------------------ api intrinsics
def _register_input(it, name, kind, payload):
    it.ex.inputs.append((name, kind, payload))


def _reg_value(it, name, v):
    it.ex.input_values[name] = v
    return v


def i_sym_int(it, args, kw):
    name = args[0]
    lo = args[1] if len(args) > 1 else kw.get("lo")
    hi = args[2] if len(args) > 2 else kw.get("hi")
    if it.float_mode == "fp" and isinstance(lo, int) and isinstance(hi, int) and -2 ** 62 < lo and hi < 2 ** 62:
        # bit-vector backed (keeps int<->float conversions inside the BV/FP theories)
        bv = z3.BitVec(f"in_{name}", 64)
        _register_input(it, name, "bvint", bv)
        it.ex.assume(z3.And(bv >= lo, bv <= hi))
        return _reg_value(it, name, m_num.bv_int(it, bv))
    t = z3.Int(f"in_{name}")
    _register_input(it, name, "int", t)
    if lo is not None:
        it.ex.assume(t >= int_term(lo))
    if hi is not None:
        it.ex.assume(t <= int_term(hi))
    return _reg_value(it, name, SInt(t))


def i_sym_bool(it, args, kw):
    t = z3.Bool(f"in_{args[0]}")
    _register_input(it, args[0], "bool", t)
    return _reg_value(it, args[0], SBool(t))


def i_sym_str(it, args, kw):
    name, n = args[0], args[1]
    alphabet = args[2] if len(args) > 2 else kw.get("alphabet")
    chars = [z3.Int(f"in_{name}_{i}") for i in range(n)]
    al = api.ALPHABETS.get(alphabet, alphabet)
    for c in chars:
        if al is None:
            it.ex.add_fact(z3.And(c >= 0, c <= 0x10FFFF))
        else:
            codes = sorted(ord(x) for x in al)
            # compress into ranges
            rngs = []
            for k in codes:
                if rngs and rngs[-1][1] == k - 1:
                    rngs[-1][1] = k
                else:
                    rngs.append([k, k])
            it.ex.add_fact(z3.Or(*[z3.And(c >= a, c <= b) if a != b else c == a for a, b in rngs]))
            if codes and codes[-1] < 128:
                it.ex.ascii_chars.add(c.get_id())
    _register_input(it, name, "str", chars)
    return _reg_value(it, name, SStr(chars) if n else "")


def i_sym_float(it, args, kw):
    name = args[0]
    lo = args[1] if len(args) > 1 else kw.get("lo")
    hi = args[2] if len(args) > 2 else kw.get("hi")
    if it.float_mode == "real":
        t = z3.Real(f"in_{name}")
        _register_input(it, name, "real", t)
        v = SFloat(t)
        if lo is not None:
            it.ex.assume(t >= m_num.real_of_pyfloat(float(lo)))
        if hi is not None:
            it.ex.assume(t <= m_num.real_of_pyfloat(float(hi)))
        return _reg_value(it, name, v)
    t = z3.FP(f"in_{name}", m_num.F64)
    _register_input(it, name, "fp", t)
    it.ex.assume(z3.Not(z3.Or(z3.fpIsNaN(t), z3.fpIsInf(t))))
    if lo is not None:
        it.ex.assume(z3.fpGEQ(t, z3.FPVal(float(lo), m_num.F64)))
    if hi is not None:
        it.ex.assume(z3.fpLEQ(t, z3.FPVal(float(hi), m_num.F64)))
    return _reg_value(it, name, SFloat(t))


def i_sym_choice(it, args, kw):
    name, options = args[0], list(args[1])
    for i, o in enumerate(options[:-1]):
        if it.decide(z3.Bool(f"in_{name}_is{i}")):
            _register_input(it, name, "const", o)
            return _reg_value(it, name, o)
    _register_input(it, name, "const", options[-1])
    return _reg_value(it, name, options[-1])


def i_assume(it, args, kw):
    c = args[0]
    if isinstance(c, SBool):
        it.ex.assume(c.t)
    elif not it.truth(c):
        raise PathAbort("assume")


def i_check(it, args, kw):
    c, label = args[0], args[1] if len(args) > 1 else kw.get("label", "check")
    if not isinstance(c, (bool, SBool)):
        c = it.truth(c)
    for pred in it.ex.exclusions.get(label, ()):
        # known-finding input class (a predicate over the dict of named inputs): the
        # obligation is re-proved outside that class
        k = M.as_bool_value(it, it.call(pred, [dict(it.ex.input_values)], {}))
        c = M.or_values(it, k, c)
    it.ex.check(c if isinstance(c, bool) else c.t, label)


def i_lemma(it, args, kw):
    """An obligation that, once emitted (and discharged like any other), is also available as a
    fact to what follows on this path: the cut rule.  If it does not hold it is reported under its
    own label, so using it afterwards hides nothing."""
    i_check(it, args, kw)
    c = args[0]
    if isinstance(c, SBool):
        it.ex.assume(c.t)
    elif not isinstance(c, bool) and not it.truth(c):
        raise PathAbort("lemma")
    elif c is False:
        raise PathAbort("lemma")


def i_cover(it, args, kw):
    it.ex.cover(args[0])


def i_outcome(it, args, kw):
    f = args[0]
    try:
        v = it.call(f, list(args[1:]), kw)
        from .interp import SCoroutine
        if isinstance(v, SCoroutine):
            v = v.run()
        return api.Outcome(value=v)
    except PyRaise as e:
        return SOutcomeExc(e.value)


class SOutcomeExc(api.Outcome):
    """Outcome whose exception may be an SObj: exc_type/raised_in work on the class."""

    def __init__(self, excval):
        self.value = None
        self.exc = excval

    @property
    def exc_type(self):
        return M.type_of(self.exc)

    def raised_in(self, classes):
        return issubclass(M.type_of(self.exc), classes)


def i_And(it, args, kw):
    r = True
    for a in args:
        r = M.and_values(it, r, M.as_bool_value(it, a))
    return r


def i_Or(it, args, kw):
    r = False
    for a in args:
        r = M.or_values(it, r, M.as_bool_value(it, a))
    return r


def i_Not(it, args, kw):
    return M.not_(it, M.as_bool_value(it, args[0]))


def i_Implies(it, args, kw):
    a, b = M.as_bool_value(it, args[0]), M.as_bool_value(it, args[1])
    return M.or_values(it, M.not_(it, a), b)


def i_Ite(it, args, kw):
    c, a, b = args
    c = M.as_bool_value(it, c)
    if isinstance(c, bool):
        return a if c else b
    if isinstance(a, (bool, SBool)) and isinstance(b, (bool, SBool)):
        return mk_bool(z3.If(c.t, bool_term(a), bool_term(b)))
    if m_num.is_intlike(a) and m_num.is_intlike(b):
        return mk_int(z3.If(c.t, int_term(a), int_term(b)))
    return a if it.decide(c.t) else b


def i_same_float(it, args, kw):
    return M.eq(it, args[0], args[1])


def i_is_none(it, args, kw):
    return args[0] is None


def i_opaque(it, args, kw):
    return Opaque(args[0])


def i_note(it, args, kw):
    return None


def i_sym_text(it, args, kw):
    """Any string at all (unbounded length, any code points)."""
    _register_input(it, args[0], "const", "<any string>")
    return SUnb(args[0])


def i_sym_idset(it, args, kw):
    """An abstract set of device ids; probes: the ids whose membership a replay needs."""
    from .sym import SAbsSet
    name, probes = args[0], list(args[1]) if len(args) > 1 else []
    s_ = SAbsSet(name)
    _register_input(it, name, "idset", (s_.fn, [str_chars(p) for p in probes if is_str(p) and len(str_chars(p)) == 9]))
    return s_


def i_set_global(it, args, kw):
    from .interp import Env
    Env.OVERLAY[(id(args[0].__dict__), args[1])] = args[2]


def i_get_global(it, args, kw):
    from .interp import Env
    ov = Env.OVERLAY.get((id(args[0].__dict__), args[1]), Env)
    return getattr(args[0], args[1]) if ov is Env else ov


def i_real(it, args, kw):
    """Call the real function, not its call-site contract (for a contract that falls back to it)."""
    saved = it.no_subst
    it.no_subst = True
    try:
        return it.call(args[0], list(args[1:]), kw)
    finally:
        it.no_subst = saved


def i_spawn(it, args, kw):
    """Start an interpreted coroutine as a suspendable task (pyvc/tasks.py); runs until it first suspends or ends."""
    from . import tasks
    from .interp import SCoroutine
    coro = args[0]
    if not isinstance(coro, SCoroutine):
        raise Unsupported("spawn of something that is not an interpreted coroutine")

    def runner(task):
        try:
            return coro.run()
        except PyRaise as e:
            task.exc = e.value
            return None

    t = tasks.Task(runner, engine_errors=(PathAbort, Unsupported, RecursionError))
    return t.start() if kw.get("start", True) else t


def i_start(it, args, kw):
    return args[0].start()


def i_suspend(it, args, kw):
    from . import tasks
    t = tasks.current()
    if t is None:
        raise Unsupported("suspend() outside a spawned task")
    value, e = t.suspend(args[0] if args else None)
    if e is not None:
        raise PyRaise(e)
    return value


def i_resume(it, args, kw):
    t = args[0]
    t.resume(args[1] if len(args) > 1 else kw.get("value"), kw.get("exc"))
    return t


def i_run_coro(it, args, kw):
    return it.await_value(args[0])


def _closure_env(fn, name):
    f = fn.func if isinstance(fn, SBound) else fn
    if not isinstance(f, SFunc):
        raise Unsupported("set_closure/get_closure of a non-interpreted function")
    e = f.env
    while e is not None:
        if name in e.vars:
            return e
        e = e.parent
    raise Unsupported(f"closure variable {name} not found")


def i_set_closure(it, args, kw):
    _closure_env(args[0], args[1]).vars[args[1]] = args[2]


def i_get_closure(it, args, kw):
    return _closure_env(args[0], args[1]).vars[args[1]]


def i_inner_function(it, args, kw):
    """The nested function of a real function, from the current tree's AST, as an interpreted closure-free function."""
    import ast as _ast
    from . import front
    from .interp import Env
    outer, name = args[0], args[1]
    node, _ = front.func_ast(outer)
    for n in _ast.walk(node):
        if isinstance(n, (_ast.FunctionDef, _ast.AsyncFunctionDef)) and n is not node and n.name == name:
            env = Env(None, outer.__globals__, defcls=None, fname=outer.__qualname__)
            return it.make_sfunc(n, env, name)
    raise LookupError(f"{outer.__qualname__} defines no function {name}")


def i_new_object(it, args, kw):
    return SObj(args[0], dict(kw))


INTRINSICS = {
    "new_object": i_new_object, "inner_function": i_inner_function, "inner_name": (lambda it, args, kw: f"{args[0].__module__}:{args[0].__qualname__}.<locals>.{args[1]}"), "sym_text": i_sym_text, "sym_idset": i_sym_idset,
    "real": i_real, "run_coro": i_run_coro, "set_closure": i_set_closure, "get_closure": i_get_closure, "set_global": i_set_global, "get_global": i_get_global, "id_mapping": (lambda it, args, kw: args[0]),
    "ghost": (lambda it, args, kw: it.ex.ghosts.setdefault(args[0], [])),
    "is_concrete": (lambda it, args, kw: not is_symbolic(args[0])),
    "sym_int": i_sym_int, "sym_bool": i_sym_bool, "sym_str": i_sym_str, "sym_float": i_sym_float,
    "sym_choice": i_sym_choice, "assume": i_assume, "check": i_check, "lemma": i_lemma, "spawn": i_spawn, "start": i_start, "suspend": i_suspend, "resume": i_resume, "cover": i_cover,
    "outcome": i_outcome, "And": i_And, "Or": i_Or, "Not": i_Not, "Implies": i_Implies,
    "Ite": i_Ite, "same_float": i_same_float, "is_none": i_is_none, "opaque": i_opaque,
    "note": i_note,
}

# Outcome methods/properties run for real on the (concrete-structured) Outcome object
