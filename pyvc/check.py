"""./check Cnn quick|thorough  /  ./check Cnn --replay file

Exit codes: 0 all obligations discharged (known findings listed), 1 violation,
2 undecided (unknown / outside subset), 3 checker error or engine mismatch.
"""
from __future__ import annotations

import glob
import hashlib
import importlib
import json
import multiprocessing as mp
import os
import random
import sys
import time
import traceback

ROOT = os.path.dirname(os.path.dirname(os.path.abspath(__file__)))
sys.setrecursionlimit(20000)


_MODS = []


def load_contracts(prop):
    from . import harness as H
    if not _MODS:
        pre = prop.lower()
        for path in sorted(glob.glob(os.path.join(ROOT, "contracts", "c*.py"))):
            name = os.path.basename(path)[:-3]
            _MODS.append(importlib.import_module(f"contracts.{name}"))
    return [h for h in H.REGISTRY if h.prop == prop or (isinstance(h.prop, tuple) and prop in h.prop)], _MODS


def load_known(prop):
    out = {"findings": [], "fixed": []}
    path = os.path.join(ROOT, "known_findings.jsonl")
    if os.path.exists(path):
        for line in open(path):
            line = line.strip()
            if not line or line.startswith("#"):
                continue
            if line.startswith("fixed:"):
                out["fixed"].append(line)
                continue
            e = json.loads(line)
            if e.get("property") == prop or (isinstance(e.get("property"), list) and prop in e["property"]):
                out["findings"].append(e)
    return out


def resolve(ref):
    mod, _, name = ref.partition(":")
    return getattr(importlib.import_module(mod), name)


# ------------------------------------------------------------------ worker
def _work(task):
    prop, hname, ci, mode, exclusions, check_ms = task[:6]
    opts = task[6] if len(task) > 6 else {}
    try:
        from . import engine, front
        hs, _ = load_contracts(prop)
        h = next(x for x in hs if x.name == hname)
        case = h.case_list()[ci]
        excl = {lab: [resolve(r) for r in refs] for lab, refs in exclusions.items()} if exclusions else None
        r = engine.run_symbolic(h, case, float_mode=mode, check_ms=check_ms, exclusions=excl,
                                stop_on_repro=opts.get("stop_on_repro", False),
                                budget_s=opts.get("budget_s"))
        r["obligations"] = [o.__dict__ for o in r["obligations"]]
        r["ends"] = [e.__dict__ for e in r["ends"]]
        r["ci"] = ci
        r["functions"] = dict(front.USED)
        return r
    except Exception:  # noqa: BLE001
        return {"harness": hname, "ci": ci, "case": [], "obligations": [], "ends": [], "paths": 0,
                "solver_s": 0, "max_query_s": 0, "queries": 0, "covers": {}, "inlined": [],
                "errors": ["worker crash: " + traceback.format_exc(limit=10)], "wall_s": 0,
                "float_mode": mode, "functions": {}}


def _child(task, conn):
    try:
        conn.send(_work(task))
    except Exception:  # noqa: BLE001
        conn.send(None)
    finally:
        conn.close()


def run_tasks(tasks, nproc):
    """Run every task in its own process (at most nproc at a time) under a hard wall-clock limit:
    a task that hangs is killed and reported as an error, it never blocks the check."""
    if not tasks:
        return []
    ctx = mp.get_context("fork")
    results = [None] * len(tasks)
    pending = list(enumerate(tasks))
    running = {}  # index -> (process, conn, deadline)
    while pending or running:
        while pending and len(running) < nproc:
            i, t = pending.pop(0)
            opts = t[6] if len(t) > 6 else {}
            budget = (opts.get("budget_s") or 600.0)
            parent, child = ctx.Pipe(duplex=False)
            p = ctx.Process(target=_child, args=(t, child), daemon=True)
            p.start()
            child.close()
            running[i] = (p, parent, time.time() + budget * 1.5 + 120)
        done = []
        for i, (p, conn, deadline) in running.items():
            if conn.poll(0):
                try:
                    results[i] = conn.recv()
                except EOFError:
                    results[i] = None
                p.join(5)
                done.append(i)
            elif not p.is_alive():
                done.append(i)
            elif time.time() > deadline:
                p.terminate()
                p.join(5)
                results[i] = _crash_result(tasks[i], "killed: exceeded the hard wall-clock limit")
                done.append(i)
        for i in done:
            running[i][1].close()
            del running[i]
        if not done:
            time.sleep(0.05)
    for i, r in enumerate(results):
        if r is None:
            results[i] = _crash_result(tasks[i], "worker died without a result")
    return results


def _crash_result(task, why):
    return {"harness": task[1], "ci": task[2], "case": [], "obligations": [], "ends": [], "paths": 0,
            "solver_s": 0, "max_query_s": 0, "queries": 0, "covers": {}, "inlined": [],
            "errors": [why], "wall_s": 0, "float_mode": task[3], "functions": {}}


# ------------------------------------------------------------------ cross-check
def crosscheck(hs, seed, per_harness, tier="thorough"):
    """CPython differential: run each harness natively on random inputs. Any failing
    check there is either a genuine violation or an engine mismatch; returns
    {(harness, ci, label): inputs}."""
    from . import api, engine
    found = {}
    n = 0
    rng = random.Random(seed)
    for h in hs:
        for ci, case in enumerate(h.case_list()):
            if not h.in_tier(case, tier):
                continue
            for _ in range(per_harness):
                api.STATE.mode = "random"
                api.STATE.rng = rng
                api.STATE.inputs = {}
                api.STATE.failures = []
                try:
                    engine.run_native(h, case)
                    n += 1
                except api.AssumeFailed:
                    continue
                except Exception as e:  # noqa: BLE001
                    found.setdefault((h.name, ci, f"<harness raised {type(e).__name__}: {e}>"), dict(api.STATE.inputs))
                    continue
                finally:
                    api.STATE.mode = "replay"
                for lab in api.STATE.failures:
                    found.setdefault((h.name, ci, lab), dict(api.STATE.inputs))
    return found, n


# ------------------------------------------------------------------ main
def main(argv):
    if len(argv) < 3:
        print("usage: check Cnn quick|thorough | check Cnn --replay FILE")
        return 3
    prop = argv[1]
    if argv[2] == "--replay":
        return do_replay(prop, argv[3])
    tier = argv[2]
    seed = int(os.environ.get("VERIF_SEED", "0") or 0)
    nproc = int(os.environ.get("VERIF_NPROC", "16"))
    t0 = time.time()
    hs, _mods = load_contracts(prop)
    all_hs = hs
    hs = [h for h in hs if tier == "thorough" or h.tier == "quick"]
    only = os.environ.get("VERIF_ONLY")
    if only:
        hs = [h for h in hs if any(o in h.name for o in only.split(","))]
    verbose = bool(os.environ.get("VERIF_VERBOSE"))
    if not hs:
        print(f"ERROR no contracts registered for {prop}")
        return 3
    known = load_known(prop)
    check_ms = 20000 if tier == "quick" else 120000
    tasks = [(prop, h.name, ci, h.float_mode, None, max(check_ms, h.check_ms), {"budget_s": float(os.environ["VERIF_BUDGET"]) if os.environ.get("VERIF_BUDGET") else h.budget_s})
             for h in hs for ci, case in enumerate(h.case_list()) if h.in_tier(case, tier)]
    byname = {h.name: h for h in hs}
    tasks.sort(key=lambda t: 0 if (byname[t[1]].heavy is not None and byname[t[1]].heavy(*byname[t[1]].case_list()[t[2]])) else 1)
    n_deferred = sum(1 for h in all_hs for case in h.case_list() if not h.in_tier(case, tier))
    results = run_tasks(tasks, nproc)
    byh = {h.name: h for h in hs}

    undecided, errors, failed = [], [], []
    vacuous = []
    n_obl = n_ok = 0
    by_backend = {}
    solver_s = 0.0
    max_q = 0.0
    functions = {}
    inlined = set()
    samples = []
    covers = {}
    n_paths = 0
    for r in results:
        if verbose:
            print(f"-- {r['harness']}[{r['ci']}] {r['case']} paths={r['paths']} wall={r['wall_s']:.1f}s solver={r['solver_s']:.1f}s q={r['queries']} maxq={r['max_query_s']:.2f}")
            for o in r["obligations"]:
                if o["status"] != "proved" or verbose and os.environ.get("VERIF_VERBOSE") == "2":
                    print(f"     {o['status']:7s} {o['label']} [{o['backend']} {o['secs']:.2f}s] {o['detail'][:160]}")
            for e in r["ends"]:
                if e["kind"] not in ("done", "abort"):
                    print(f"     END {e['kind']}: {e['detail'][:200]}")
        functions.update(r.get("functions", {}))
        inlined.update(r["inlined"])
        solver_s += r["solver_s"]
        max_q = max(max_q, r["max_query_s"])
        n_paths += r["paths"]
        for k, v in r["covers"].items():
            covers[f"{r['harness']}:{k}"] = covers.get(f"{r['harness']}:{k}", False) or v
        for e in r["errors"]:
            errors.append(f"{r['harness']}[{r['ci']}]: {e}")
        done = [e for e in r["ends"] if e["kind"] == "done"]
        for e in r["ends"]:
            if e["kind"] == "unsupported":
                undecided.append(f"{r['harness']}[{r['ci']}] path {e['path']}: outside subset: {e['detail']}")
        hh = byh[r["harness"]]
        vac_ok = hh.vacuous_ok is not None and hh.vacuous_ok(*hh.case_list()[r["ci"]])
        if not r["obligations"] and not r["errors"]:
            if vac_ok:
                vacuous.append(f"{r['harness']}{r['case']}")
            else:
                errors.append(f"{r['harness']}[{r['ci']}]: zero obligations generated (vacuous)")
        if not done and not r["errors"] and not [e for e in r["ends"] if e["kind"] == "unsupported"] and not vac_ok:
            errors.append(f"{r['harness']}[{r['ci']}]: no path reached the end (vacuous precondition)")
        for o in r["obligations"]:
            if o["label"].startswith("[C") and not o["label"].startswith(f"[{prop}]"):
                continue  # a clause of another property served by the same harness
            n_obl += 1
            if o["status"] == "proved":
                n_ok += 1
                by_backend[o["backend"]] = by_backend.get(o["backend"], 0) + 1
                if len(samples) < 6 and o["backend"] != "simplify":
                    samples.append({"harness": r["harness"], "case": r["case"], "obligation": o["label"],
                                    "status": "proved", "backend": o["backend"], "secs": round(o["secs"], 3)})
            elif o["status"] == "failed":
                failed.append((r, o))
            else:
                undecided.append(f"{r['harness']}[{r['ci']}] obligation '{o['label']}': {o['detail']}")

    # ---- failed obligations: fp second opinion, replay, known findings -------------
    violations = []  # (label, replay path, reproduced)
    known_seen = []
    mismatches = []
    groups = {}
    for r, o in failed:
        groups.setdefault((r["harness"], r["ci"], o["label"]), []).append((r, o))
    from . import engine
    fp_cache = {}
    pending = {}  # group key -> dict(witness, reproduced, verifier_out)
    for (hname, ci, label), items in sorted(groups.items()):
        h = byh[hname]
        case = h.case_list()[ci]
        reproduced = None
        witness = None
        verifier_out = items[0][1]["detail"]
        for rr, oo in items:
            fails, skipped, err = engine.replay_native(h, case, oo["inputs"] or {})
            if label in fails:
                reproduced, witness, verifier_out = True, oo["inputs"], oo["detail"]
                break
        if reproduced is None and h.float_mode == "real" and not h.state_only:
            # the real-arithmetic float encoding over-approximates rounding: ask the
            # exact IEEE-754 encoding (second back end) for a verdict / counterexample
            key = (hname, ci)
            if key not in fp_cache:
                fp_cache[key] = run_tasks([(prop, hname, ci, "fp", None, 120000, {"stop_on_repro": True, "budget_s": 900})], 1)[0]
            fr = fp_cache[key]
            fobs = [x for x in fr["obligations"] if x["label"] == label]
            fp_hit = [x for x in fobs if x["status"] == "failed" and "[reproduced natively]" in x["detail"]]
            if not fp_hit and (fr["errors"] or any(e["kind"] == "unsupported" for e in fr["ends"])):
                undecided.append(f"{hname}[{ci}] '{label}': real-mode counter-model did not replay and fp-exact run is incomplete: "
                                 + "; ".join(fr["errors"] + [e["detail"] for e in fr["ends"] if e["kind"] == "unsupported"])[:300])
                continue
            if fobs and all(x["status"] == "proved" for x in fobs):
                n_ok += len(items)
                by_backend["fp-exact"] = by_backend.get("fp-exact", 0) + len(items)
                continue
            for x in fobs:
                if x["status"] == "failed":
                    fails, skipped, err = engine.replay_native(h, case, x["inputs"] or {})
                    verifier_out = x["detail"] + " (fp-exact)"
                    if label in fails:
                        reproduced, witness = True, x["inputs"]
                        break
            if reproduced is None and any(x["status"] == "unknown" for x in fobs):
                undecided.append(f"{hname}[{ci}] '{label}': fp-exact back end returned unknown")
                continue
        if reproduced is None:
            has_inputs = any(oo["inputs"] for _, oo in items)
            if has_inputs and not h.state_only:
                mismatches.append(f"{hname}[{ci}] '{label}': counter-model {items[0][1]['inputs']} does not fail natively")
                continue
            witness = items[0][1]["inputs"]
        pending[(hname, ci, label)] = {"witness": witness, "reproduced": bool(reproduced), "out": verifier_out}

    # known findings: an entry applies to (harness, label, case); its witness must still fail on
    # the real code; outside its input class the obligation is re-proved (a counterexample
    # there is a different violation and is reported)
    def applies(k, hname, ci, case, label):
        if k.get("harness") != hname or label not in (k.get("labels") or [k.get("label")]):
            return False
        a = k.get("applies_to", "*")
        if a == "*":
            return True
        return any(list(case[:len(pre)]) == list(pre) for pre in a)

    entry_ok = {}

    def witness_still_fails(i, k):
        if i not in entry_ok:
            h = byh.get(k["harness"]) or next((x for x in all_hs if x.name == k["harness"]), None)
            ok = False
            if h is not None and k.get("witness") is not None:
                wc = k.get("witness_case")
                cl = [list(c) for c in h.case_list()]
                if wc is None or list(wc) in cl:
                    wcase = h.case_list()[cl.index(list(wc))] if wc is not None else h.case_list()[0]
                    wf, _, _ = engine.replay_native(h, wcase, k["witness"])
                    ok = any(lab in wf for lab in (k.get("labels") or [k.get("label")]))
            elif h is not None and h.state_only:
                ok = True  # state-level finding: identified by its obligation, no native input
            entry_ok[i] = ok
            if not ok:
                print(f"NOTE known finding no longer reproduces: property={prop} {k['what']}")
        return entry_ok[i]

    plan = {}  # (hname, ci) -> {label: [class refs]}
    direct = {}  # group key -> entry indexes that cover it entirely (class '*')
    for key in pending:
        hname, ci, label = key
        case = byh[hname].case_list()[ci]
        for i, k in enumerate(known["findings"]):
            if applies(k, hname, ci, case, label) and witness_still_fails(i, k):
                cls = k.get("input_class", "*")
                if cls in (None, "*"):
                    direct.setdefault(key, []).append(i)
                else:
                    plan.setdefault((hname, ci), {}).setdefault(label, [])
                    for c in ([cls] if isinstance(cls, str) else cls):
                        if c not in plan[(hname, ci)][label]:
                            plan[(hname, ci)][label].append(c)
                    pending[key].setdefault("entries", []).append(i)
    ex_tasks = [(prop, hname, ci, byh[hname].float_mode, excl, check_ms, {"budget_s": byh[hname].budget_s})
                for (hname, ci), excl in sorted(plan.items()) if not all((hname, ci, lab) in direct for lab in excl)]
    ex_results = {(r["harness"], r["ci"]): r for r in run_tasks(ex_tasks, nproc)}
    seen_entries = set()
    n_known_direct = 0
    for key, info in sorted(pending.items()):
        hname, ci, label = key
        h = byh[hname]
        case = h.case_list()[ci]
        if key in direct:
            seen_entries.update(direct[key])
            n_known_direct += len(groups[key])
            continue
        er = ex_results.get((hname, ci))
        if er is not None and label in plan.get((hname, ci), {}):
            eobs = [x for x in er["obligations"] if x["label"] == label]
            incomplete = er["errors"] or any(e["kind"] == "unsupported" for e in er["ends"])
            bad = [x for x in eobs if x["status"] != "proved"]
            if eobs and not bad and not incomplete:
                seen_entries.update(info.get("entries", []))
                n_ok += len(groups[key])
                bk = "z3 (re-proved outside the known-finding input class)"
                by_backend[bk] = by_backend.get(bk, 0) + len(groups[key])
                continue
            new_viol = False
            for x in bad:
                if x["status"] == "failed":
                    fails, _, _ = engine.replay_native(h, case, x["inputs"] or {})
                    if label in fails or h.state_only:
                        info.update(witness=x["inputs"], reproduced=label in fails, out=x["detail"] + " (outside the known-finding classes)")
                        new_viol = True
                        break
            if not new_viol:
                undecided.append(f"{hname}[{ci}] '{label}': outside the known-finding class the obligation is undecided")
                continue
        path = write_replay(prop, hname, ci, case, label, info["witness"], info["out"], info["reproduced"], functions)
        violations.append((label, path, info["reproduced"]))
    known_seen = [known["findings"][i] for i in sorted(seen_entries)]

    # ---- CPython differential cross-check of the engine ------------------------------
    per = 30 if tier == "quick" else 300
    cc_found, cc_n = crosscheck(hs, seed, per, tier)
    failed_keys = set(groups.keys())
    for (hname, ci, label), inputs in cc_found.items():
        if (hname, ci, label) in failed_keys:
            continue
        if label.startswith("[C") and not label.startswith(f"[{prop}]"):
            continue
        hh = byh[hname]
        if label.startswith("<harness raised"):
            mismatches.append(f"{hname}[{ci}]: native harness raised on {inputs}: {label}")
        elif hh.subst or hh.stubs:
            # the obligation was discharged against a callee's *contract*; the real callee does
            # not honour it for this input: the real code fails the obligation (reproduced)
            path = write_replay(prop, hname, ci, hh.case_list()[ci], label, inputs,
                                "found by the native run of the real code (a callee abstracted by its contract in the symbolic run does not honour that contract)", True, functions)
            violations.append((label, path, True))
        else:
            mismatches.append(f"{hname}[{ci}] '{label}' was discharged but fails natively on {inputs}")

    # ---- structural obligations (syntactic frame / purity / handler-set conditions) -----------
    from .harness import STRUCTURAL
    for sc in STRUCTURAL:
        if not (sc.prop == prop or (isinstance(sc.prop, tuple) and prop in sc.prop)):
            continue
        if only and not any(o in sc.name for o in only.split(",")):
            continue
        try:
            res = sc.fn()
        except Exception:  # noqa: BLE001
            errors.append(f"structural check {sc.name} crashed: " + traceback.format_exc(limit=6))
            continue
        if not res:
            errors.append(f"structural check {sc.name}: zero obligations")
        for label, ok, detail in res:
            if label.startswith("[C") and not label.startswith(f"[{prop}]"):
                continue
            n_obl += 1
            if ok:
                n_ok += 1
                by_backend["syntactic"] = by_backend.get("syntactic", 0) + 1
                if len(samples) < 8:
                    samples.append({"harness": sc.name, "obligation": label, "status": "proved", "backend": "syntactic", "detail": detail[:200]})
                continue
            kfs = [k for k in known["findings"] if k.get("harness") == sc.name and label in (k.get("labels") or [])]
            if kfs:
                known_seen.extend(k for k in kfs if k not in known_seen)
                n_obl -= 1
                n_known_direct += 1
                continue
            path = write_replay(prop, sc.name, 0, (), label, None, detail, False, functions, native=False)
            violations.append((label, path, False))

    # ---- native checks of trusted library contracts (bounded, never counted as proved) ----
    from .harness import NATIVE
    native_report = []
    for nc in NATIVE:
        if not (nc.prop == prop or (isinstance(nc.prop, tuple) and prop in nc.prop)) or (tier == "quick" and nc.tier != "quick"):
            continue
        if only and not any(o in nc.name for o in only.split(",")):
            continue
        try:
            nr = nc.fn(seed, 150 if tier == "quick" else 1500)
        except Exception:  # noqa: BLE001
            errors.append(f"native check {nc.name} crashed: " + traceback.format_exc(limit=6))
            continue
        native_report.append({"check": nc.name, "kind": "bounded (seeded native run of the real code)",
                              "evaluations": nr["evaluations"], "failures": len(nr["failures"])})
        if nr["evaluations"] == 0:
            errors.append(f"native check {nc.name}: zero evaluations")
        n_new = 0
        for f in nr["failures"]:
            kfs = [k for k in known["findings"] if k.get("harness") == nc.name and f["label"] in (k.get("labels") or [])
                   and (k.get("witness_key") is None or f["witness"].get(k["witness_key"]) in k.get("witness_values", []))]
            if kfs:
                for k in kfs:
                    if k not in known_seen:
                        known_seen.append(k)
                continue
            n_new += 1
            if n_new <= 3:
                path = write_replay(prop, nc.name, 0, (), f["label"], f["witness"], "native run of the real code", True, functions, native=True)
                violations.append((f["label"], path, True))

    wall = time.time() - t0
    # ---- report ------------------------------------------------------------------
    for k in known_seen:
        print(f"KNOWN-FINDING: property={prop} {k['what']}")
    for label, path, rep in violations:
        print(f"VIOLATION property={prop} replay={os.path.relpath(path, ROOT)}" + ("" if rep else " no-failing-input-found"))
    for u in undecided[:40]:
        print("UNDECIDED " + u)
    for m in mismatches[:20]:
        print("ENGINE-MISMATCH " + m)
    for e in errors[:20]:
        print("ERROR " + e)

    ev = {
        "property_id": prop, "tier": tier, "seed": seed,
        "level": LEVELS.get(prop, "other"),
        "coverage": {
            "obligations": n_obl - n_known_direct, "discharged": n_ok,
            "known_finding_obligations": n_known_direct,
            "checker_cmd": f"./check {prop} {tier}",
            "trusted_base": TRUSTED,
            "explanation": EXPLAIN.get(prop, "") or "contract obligations generated from the current /repo ASTs by pyvc and discharged by z3/cvc5",
            "by_backend": by_backend, "solver_s": round(solver_s, 2), "max_query_s": round(max_q, 2),
            "paths": n_paths, "harness_cases": len(tasks),
            "functions_under_contract": sorted((f for f in functions.values() if f["function"].startswith("ramses_")), key=lambda d: d["function"]),
            "spec_functions": sorted(f["function"] for f in functions.values() if not f["function"].startswith("ramses_")),
            "inlined": sorted(inlined),
            "undecided": undecided[:50], "known_findings_seen": [k["what"] for k in known_seen],
            "crosscheck_cases": cc_n, "vacuity_covers": covers,
            "samples": samples or [{"note": "all obligations discharged by simplification"}],
            "deferred_to_thorough": n_deferred,
            "native_checks": native_report,
            "empty_domain_cases": vacuous,
        },
        "assumptions": ASSUMPTIONS + _assumed_contracts(prop) + PROP_ASSUMPTIONS.get(prop, []),
        "wall_s": round(wall, 2),
        "violations": len(violations),
    }
    # evidence/ records runs against /repo itself; a run against a scratch checkout (VERIF_REPO, used to try
    # seeded changes) writes to evidence-scratch/ (ignored by git) so that it can never be committed as evidence
    evdir = "evidence" if os.path.realpath(os.environ.get("VERIF_REPO", "/repo")) == "/repo" else "evidence-scratch"
    os.makedirs(os.path.join(ROOT, evdir), exist_ok=True)
    with open(os.path.join(ROOT, evdir, f"{prop}.json"), "w") as fh:
        json.dump(ev, fh, indent=1, default=str)
    print(f"{prop} {tier}: {n_ok}/{n_obl - n_known_direct} obligations discharged ({n_known_direct} more are listed known findings), {len(violations)} violations, "
          f"{len(known_seen)} known findings, {len(undecided)} undecided, {wall:.1f}s")
    if violations:
        return 1
    if mismatches or errors:
        return 3
    if undecided:
        return 2
    return 0


def write_replay(prop, hname, ci, case, label, witness, verifier_out, reproduced, functions, native=False):
    os.makedirs(os.path.join(ROOT, "replays"), exist_ok=True)
    body = {
        "property": prop, "harness": hname, "case_index": ci, "case": [repr(c) for c in case],
        "obligation": label, "inputs": witness, "reproduced_on_real_code": reproduced,
        "verifier_output": verifier_out,
        "functions": sorted(f["function"] for f in functions.values()),
        "replay_cmd": f"./check {prop} --replay <this file>",
        "native_check": native,
    }
    hsh = hashlib.sha1(json.dumps([hname, ci, label], sort_keys=True).encode()).hexdigest()[:10]
    path = os.path.join(ROOT, "replays", f"{prop}-{hname}-{hsh}.json")
    with open(path, "w") as fh:
        json.dump(body, fh, indent=1, default=str)
    return path


def do_replay(prop, path):
    from . import engine
    body = json.load(open(path))
    hs, _ = load_contracts(prop)
    if body.get("native_check"):
        from .harness import NATIVE
        nc = next(x for x in NATIVE if x.name == body["harness"])
        nr = nc.fn(int((body.get("inputs") or {}).get("seed", 0)), 1500)
        labels = [f["label"] for f in nr["failures"]]
        print(f"replay native check {nc.name}: failures {labels}")
        if body["obligation"] in labels:
            print(f"VIOLATION property={prop} replay={path}")
            return 1
        print("not reproduced on the current tree")
        return 0
    from .harness import STRUCTURAL
    sc = next((x for x in STRUCTURAL if x.name == body["harness"]), None)
    if sc is not None:
        bad = [lab for lab, ok, _ in sc.fn() if not ok]
        print(f"replay structural check {sc.name}: failing obligations {bad}")
        if body["obligation"] in bad:
            print(f"VIOLATION property={prop} replay={path} no-failing-input-found")
            return 1
        print("not reproduced on the current tree")
        return 0
    h = next(x for x in hs if x.name == body["harness"])
    case = h.case_list()[body["case_index"]]
    fails, skipped, err = engine.replay_native(h, case, body.get("inputs") or {})
    print(f"replay {body['harness']}[{body['case_index']}] inputs={body.get('inputs')}")
    print(f"  failing obligations on the real code: {fails}  (precondition skipped={skipped}, error={err})")
    if body["obligation"] in fails:
        print(f"VIOLATION property={prop} replay={path}")
        return 1
    print("not reproduced on the current tree")
    return 0


from .meta import ASSUMPTIONS, EXPLAIN, LEVELS, PROP_ASSUMPTIONS, TRUSTED  # noqa: E402


def _assumed_contracts(prop):
    """Every callee a harness of this property replaces by a contract (stubs / subst): an assumption,
    named so that it can be audited."""
    from .harness import REGISTRY
    out = set()
    for h in REGISTRY:
        if not (h.prop == prop or (isinstance(h.prop, tuple) and prop in h.prop)):
            continue
        for real, spec in list((h.stubs or {}).items()) + list((h.subst or {}).items()):
            rn = f"{getattr(real, '__module__', '?')}.{getattr(real, '__qualname__', getattr(real, '__name__', repr(real)))}"
            doc = ((getattr(spec, "__doc__", None) or "").strip().split("\n")[0])[:140]
            out.add(f"assumed contract (in {h.name}): {rn} replaced by {getattr(spec, '__name__', repr(spec))}" + (f" -- {doc}" if doc else ""))
    return sorted(out)

if __name__ == "__main__":
    sys.exit(main(sys.argv))
