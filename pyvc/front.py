"""Front end: locate the AST of real functions in the *current working tree*.

Every run parses the files as they are now (ast.parse of the file the function object
was loaded from); nothing is cached on disk.  The SHA-256 of each function's source
segment is recorded for the evidence.
"""
from __future__ import annotations

import ast
import hashlib
import inspect
import types

_FILE_CACHE: dict[str, tuple[str, ast.Module, dict]] = {}
USED: dict[str, dict] = {}  # qualname -> {file, lines, sha256}


def _load(path):
    ent = _FILE_CACHE.get(path)
    if ent is None:
        with open(path, encoding="utf-8") as fh:
            src = fh.read()
        tree = ast.parse(src, filename=path)
        index = {}
        for node in ast.walk(tree):
            if isinstance(node, (ast.FunctionDef, ast.AsyncFunctionDef, ast.Lambda)):
                first = node.lineno
                if getattr(node, "decorator_list", None):
                    first = min([first] + [d.lineno for d in node.decorator_list])
                name = getattr(node, "name", "<lambda>")
                index.setdefault((name, first), node)
                index.setdefault((name, node.lineno), node)
        ent = (src, tree, index)
        _FILE_CACHE[path] = ent
    return ent


def func_ast(f: types.FunctionType):
    """Return (node, filename) for a real python function object."""
    code = f.__code__
    path = code.co_filename
    src, tree, index = _load(path)
    node = index.get((code.co_name, code.co_firstlineno))
    if node is None:
        raise LookupError(f"cannot locate AST of {f.__qualname__} at {path}:{code.co_firstlineno}")
    qn = f"{f.__module__}:{f.__qualname__}"
    if qn not in USED:
        seg = ast.get_source_segment(src, node) or ""
        USED[qn] = {
            "function": qn,
            "file": path,
            "lines": [node.lineno, node.end_lineno],
            "sha256": hashlib.sha256(seg.encode()).hexdigest(),
        }
    return node, path


def is_user_module(modname: str | None) -> bool:
    return bool(modname) and (
        modname.startswith("ramses_") or modname.startswith("contracts")
        or modname.startswith("ramses_cli")
    )
