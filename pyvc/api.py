"""Intrinsics used by contract / lemma files (dual mode).

The same harness source is (a) interpreted symbolically by pyvc.interp, where these
functions are replaced by their symbolic meaning, and (b) executed natively under
CPython with concrete inputs -- for replaying a counter-model against the real code and
for the differential cross-check of the engine.  This module is the native meaning.
"""
from __future__ import annotations


class _Concrete:
    inputs: dict = {}
    failures: list = []
    skipped = False
    covers: set = set()
    mode = "replay"  # 'replay' (inputs given) | 'random' (inputs drawn from rng)
    rng = None
    checks = 0


STATE = _Concrete()


class AssumeFailed(Exception):
    pass


def _get(name, gen=None):
    if STATE.mode == "random" and name not in STATE.inputs:
        STATE.inputs[name] = gen(STATE.rng)
    if name not in STATE.inputs:
        raise KeyError(f"replay input {name!r} missing")
    return STATE.inputs[name]


def _rand_int(lo, hi):
    def g(r):
        a = lo if lo is not None else -(2 ** r.choice([4, 8, 16, 17, 24, 40, 70]))
        b = hi if hi is not None else 2 ** r.choice([4, 8, 16, 17, 24, 40, 70])
        if r.random() < 0.15:
            return r.choice([a, b, min(max(0, a), b), min(max(a, -1), b), min(max(a, 1), b)])
        return r.randint(a, b)
    return g


def _rand_str(n, alphabet):
    def g(r):
        al = ALPHABETS.get(alphabet, alphabet)
        if al is None:
            al = "0123456789ABCDEFabcdef :-\n\t#*<xyzZ\u0663\u00e9\x00"
        return "".join(r.choice(al) for _ in range(n))
    return g


def _rand_float(lo, hi):
    def g(r):
        a = lo if lo is not None else -1e6
        b = hi if hi is not None else 1e6
        k = r.random()
        if k < 0.4:
            return min(max(round(r.uniform(a, b), 2), a), b)
        if k < 0.5:
            return r.choice([float(a), float(b)])
        return r.uniform(a, b)
    return g


def sym_int(name, lo=None, hi=None):
    v = _get(name, _rand_int(lo, hi))
    if (lo is not None and v < lo) or (hi is not None and v > hi):
        raise AssumeFailed(name)
    return v


def sym_bool(name):
    return bool(_get(name, lambda r: r.random() < 0.5))


def sym_str(name, n, alphabet=None):
    v = _get(name, _rand_str(n, alphabet))
    if len(v) != n or not in_alphabet(v, alphabet):
        raise AssumeFailed(name)
    return v


def sym_float(name, lo=None, hi=None):
    v = float(_get(name, _rand_float(lo, hi)))
    if (lo is not None and not v >= lo) or (hi is not None and not v <= hi):
        raise AssumeFailed(name)
    return v


def sym_choice(name, options):
    options = list(options)
    return _get(name, lambda r: r.choice(options))


ALPHABETS = {
    "HEX": "0123456789ABCDEF",
    "hex": "0123456789ABCDEFabcdef",
    "digit": "0123456789",
    "ascii": "".join(map(chr, range(128))),
    "print": "".join(map(chr, range(32, 127))),
    "latin1": "".join(map(chr, range(256))),
    None: None,
    "any": None,
}


def in_alphabet(s, alphabet):
    al = ALPHABETS.get(alphabet, alphabet)
    if al is None:
        return True
    return all(c in al for c in s)


def assume(c):
    if not c:
        raise AssumeFailed()


def check(c, label):
    STATE.checks += 1
    if not c:
        STATE.failures.append(label)


def lemma(c, label):
    """check, then a fact for the rest of the path (natively: a check)."""
    check(c, label)


def cover(label):
    STATE.covers.add(label)


class Outcome:
    """Result of calling a function: value or exception (class + instance)."""

    def __init__(self, value=None, exc=None):
        self.value = value
        self.exc = exc  # exception instance (or None)

    @property
    def ok(self):
        return self.exc is None

    @property
    def raised(self):
        return self.exc is not None

    @property
    def exc_type(self):
        return type(self.exc) if self.exc is not None else None

    def raised_in(self, classes):
        return self.exc is not None and isinstance(self.exc, classes)

    def __repr__(self):
        return f"Outcome(value={self.value!r}, exc={self.exc!r})"


def outcome(f, *args, **kwargs):
    try:
        v = f(*args, **kwargs)
        if hasattr(v, "send") and hasattr(v, "cr_frame"):  # a coroutine: run it to completion
            import asyncio
            v = asyncio.run(v)
        return Outcome(value=v)
    except (AssumeFailed, KeyboardInterrupt, SystemExit):
        raise
    except BaseException as e:  # noqa: BLE001  (the point is to observe it; incl. CancelledError)
        return Outcome(exc=e)


def And(*xs):
    return all(xs)


def Or(*xs):
    return any(xs)


def Not(x):
    return not x


def Implies(a, b):
    return (not a) or b


def Ite(c, a, b):
    return a if c else b


def same_float(a, b):
    """Bit-level equality of two floats (distinguishes 0.0 / -0.0 only by value)."""
    return a == b


def is_none(x):
    return x is None


def opaque(name):
    return object()


def note(*a):
    pass


def new_object(cls, **attrs):
    """An instance of `cls` made without running __init__, with the given attributes."""
    o = object.__new__(cls)
    for k, v in attrs.items():
        object.__setattr__(o, k, v)
    return o


def sym_text(name):
    """Any string at all.  Natively (replay / cross-check): drawn from a pool of awkward lines."""
    pool = ["", " ", "\n", "#", "# comment", "*", "x * y # z", "000", "000 ", "garbage", "\x00\xff", "045  I --- 01:145038 --:------ 01:145038",
            "045 RQ --- 18:000730 01:145038 --:------ 000A 002 08", "\u0663\u0663\u0663 RQ", "<", " < hint", "a" * 300]
    return _get(name, lambda r: r.choice(pool))


def is_concrete(x):
    """True when x holds no symbolic part (always true natively)."""
    return True


_GHOSTS: dict = {}


def ghost(name):
    """A per-run ghost list (specification-only state shared by contract functions)."""
    return _GHOSTS.setdefault(name, [])


def sym_idset(name, probes=()):
    """A collection of device ids (a list).  Replay: the members among the probe ids; random
    mode: a random subset of the probes plus some unrelated ids."""
    def g(r):
        pool = [p for p in probes if isinstance(p, str)]
        out = [p for p in pool if r.random() < 0.4]
        out += [f"{r.randint(0, 63):02d}:{r.randint(0, 262143):06d}" for _ in range(r.randint(0, 2))]
        return out
    return list(_get(name, g))


_SET_GLOBALS: list = []


def set_global(module, name, value):
    """Give a module-level variable a value for this run (restored afterwards)."""
    _SET_GLOBALS.append((module, name, getattr(module, name)))
    setattr(module, name, value)


def get_global(module, name):
    return getattr(module, name)


def id_mapping(ids):
    """A device list (id -> traits) with exactly these ids (the abstract set itself when symbolic)."""
    return {k: {} for k in ids}


def real(f, *args, **kwargs):
    """Call the real function (natively there is nothing else)."""
    return f(*args, **kwargs)


def spawn(coro, start=True):
    """Start a coroutine of the real code as a suspendable task: it runs until a contract at one of
    its awaits calls suspend(tag), or until it ends.  -> task (.done, .ok, .value, .exc, .waiting)"""
    from . import tasks

    def runner(task):
        import asyncio
        return asyncio.run(coro)

    t = tasks.Task(runner, engine_errors=(AssumeFailed,))
    return t.start() if start else t


def start(task):
    return task.start()


def suspend(tag=None):
    """(in a contract of an awaited callee) hand control back to the harness until it resumes the task."""
    from . import tasks
    value, e = tasks.current().suspend(tag)
    if e is not None:
        raise e
    return value


def resume(task, value=None, exc=None):
    task.resume(value, exc)
    return task


def run_coro(coro):
    """Run a coroutine object to completion (natively on a fresh event loop)."""
    import asyncio
    return asyncio.run(coro)


def inner_function(outer, name):
    """The function `name` that `outer` defines in its body (one without free variables of `outer`), so that it
    can be put under its own contract.  Natively: built from the nested code object of the current tree."""
    import types
    for c in outer.__code__.co_consts:
        if isinstance(c, types.CodeType) and c.co_name == name:
            if c.co_freevars:
                raise ValueError(f"{name} uses variables of {outer.__qualname__}")
            return types.FunctionType(c, outer.__globals__, name)
    raise LookupError(f"{outer.__qualname__} defines no function {name}")


def inner_name(outer, name):
    """The key under which subst={...} replaces the function `name` defined inside `outer` by its contract."""
    return f"{outer.__module__}:{outer.__qualname__}.<locals>.{name}"


def set_closure(fn, name, value):
    """Set a free variable (closure cell) of a function."""
    i = fn.__code__.co_freevars.index(name)
    fn.__closure__[i].cell_contents = value


def get_closure(fn, name):
    i = fn.__code__.co_freevars.index(name)
    return fn.__closure__[i].cell_contents
