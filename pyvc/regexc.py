"""Exact compilation of a Python regular expression to a formula over a shaped string.

The pattern is parsed by CPython's own `re._parser.parse` (the tree `re.compile` uses).
Supported node kinds: LITERAL, NOT_LITERAL, ANY, IN (LITERAL, RANGE, CATEGORY, NEGATE),
BRANCH, SUBPATTERN (plain groups), MAX_REPEAT / MIN_REPEAT (finite or unbounded), AT
(beginning / end / end-string).  No back-references / look-around: every supported
regex denotes a regular language, so for a string of concrete length n the formula
"some accepting NFA run over c_0..c_{n-1}" is exact.  `$` also matches before a final
'\\n' (as CPython, no MULTILINE); `\\d` is the Unicode decimal class for str patterns.
"""
from __future__ import annotations

import re
import sys

import z3

try:
    import re._parser as sre_parse
    import re._constants as sre_c
except ImportError:  # pragma: no cover
    import sre_parse
    import sre_constants as sre_c

from .sym import FALSE, TRUE, And, Or, Unsupported, char_term


class RegexUnsupported(Unsupported):
    pass


# ---- character categories -------------------------------------------------------
def _ranges(pred):
    out = []
    start = None
    for c in range(sys.maxunicode + 2):
        ok = c <= sys.maxunicode and pred(chr(c))
        if ok and start is None:
            start = c
        elif not ok and start is not None:
            out.append((start, c - 1))
            start = None
    return out


_CAT_CACHE: dict = {}


def cat_ranges(name):
    if name not in _CAT_CACHE:
        if name == "digit":
            _CAT_CACHE[name] = _ranges(str.isdecimal)  # \d == [Nd] for str patterns
        elif name == "space":
            _CAT_CACHE[name] = _ranges(str.isspace)
        elif name == "word":
            _CAT_CACHE[name] = _ranges(lambda ch: ch.isalnum() or ch == "_")
        else:
            raise RegexUnsupported(name)
    return _CAT_CACHE[name]


_INR_CACHE: dict = {}


def in_ranges(c, ranges):
    """c: python int or z3 Int term."""
    if isinstance(c, int):
        return any(lo <= c <= hi for lo, hi in ranges)
    key = (c.get_id(), id(ranges))
    ent = _INR_CACHE.get(key)
    if ent is None or not ent[0].eq(c):
        t = Or(*[(c == lo) if lo == hi else z3.And(c >= lo, c <= hi) for lo, hi in ranges])
        ent = (c, ranges, t)  # holding c and ranges keeps both ids stable
        _INR_CACHE[key] = ent
    return ent[2]


# a char predicate is a python function: c -> (python bool | z3 Bool)
def _p_lit(v):
    return lambda c: (c == v)


def _p_any(dotall):
    if dotall:
        return lambda c: True
    return lambda c: (c != 10)


def _p_not(p):
    def f(c):
        r = p(c)
        if isinstance(r, bool):
            return not r
        return z3.Not(r)
    return f


def _p_in(items, ascii_only, ignorecase):
    preds = []
    negate = False
    for op, av in items:
        if op is sre_c.NEGATE:
            negate = True
        elif op is sre_c.LITERAL:
            preds.append(_p_lit(av))
        elif op is sre_c.RANGE:
            lo, hi = av
            preds.append(lambda c, lo=lo, hi=hi: (lo <= c <= hi) if isinstance(c, int) else z3.And(c >= lo, c <= hi))
        elif op is sre_c.CATEGORY:
            preds.append(_p_cat(av, ascii_only))
        else:
            raise RegexUnsupported(f"IN item {op}")

    def f(c):
        rs = [p(c) for p in preds]
        r = Or(*[z3.BoolVal(x) if isinstance(x, bool) else x for x in rs]) if not all(
            isinstance(x, bool) for x in rs) else any(rs)
        if negate:
            return (not r) if isinstance(r, bool) else z3.Not(r)
        return r
    return f


def _p_cat(cat, ascii_only):
    name = str(cat)
    neg = "NOT_" in name
    base = name.replace("CATEGORY_", "").replace("NOT_", "").replace("UNI_", "").lower()
    if base not in ("digit", "space", "word"):
        raise RegexUnsupported(name)
    if ascii_only:
        rng = [(lo, min(hi, 127)) for lo, hi in cat_ranges(base) if lo <= 127]
    else:
        rng = cat_ranges(base)

    def f(c):
        r = in_ranges(c, rng)
        if neg:
            return (not r) if isinstance(r, bool) else z3.Not(r)
        return r
    return f


# ---- NFA -------------------------------------------------------------------------
class NFA:
    def __init__(self):
        self.n = 0
        self.eps = {}  # q -> [q']
        self.trans = []  # (q, pred, q')
        self.at_begin = set()  # eps edges only valid at position 0: (q, q')
        self.at_end = set()  # eps edges only valid at end ($ semantics)
        self.at_end_strict = set()  # \Z

    def new(self):
        self.n += 1
        self.eps[self.n - 1] = []
        return self.n - 1

    def e(self, a, b):
        self.eps[a].append((b, None))

    def e_cond(self, a, b, kind):
        self.eps[a].append((b, kind))


def build(nfa, tree, start, flags):
    """Add states for `tree` (a SubPattern / list) starting in `start`; return end state."""
    cur = start
    ascii_only = bool(flags & re.ASCII)
    dotall = bool(flags & re.DOTALL)
    if flags & (re.IGNORECASE | re.MULTILINE | re.VERBOSE & 0):
        if flags & re.IGNORECASE or flags & re.MULTILINE:
            raise RegexUnsupported("IGNORECASE/MULTILINE")
    for op, av in tree:
        if op is sre_c.LITERAL:
            nxt = nfa.new()
            nfa.trans.append((cur, _p_lit(av), nxt))
            cur = nxt
        elif op is sre_c.NOT_LITERAL:
            nxt = nfa.new()
            nfa.trans.append((cur, _p_not(_p_lit(av)), nxt))
            cur = nxt
        elif op is sre_c.ANY:
            nxt = nfa.new()
            nfa.trans.append((cur, _p_any(dotall), nxt))
            cur = nxt
        elif op is sre_c.IN:
            nxt = nfa.new()
            nfa.trans.append((cur, _p_in(av, ascii_only, False), nxt))
            cur = nxt
        elif op is sre_c.BRANCH:
            _, alts = av
            end = nfa.new()
            for alt in alts:
                s = nfa.new()
                nfa.e(cur, s)
                t = build(nfa, alt, s, flags)
                nfa.e(t, end)
            cur = end
        elif op is sre_c.SUBPATTERN:
            group, add_flags, del_flags, sub = av
            if add_flags or del_flags:
                raise RegexUnsupported("inline flags")
            cur = build(nfa, sub, cur, flags)
        elif op in (sre_c.MAX_REPEAT, sre_c.MIN_REPEAT):
            lo, hi, sub = av
            for _ in range(lo):
                cur = build(nfa, sub, cur, flags)
            if hi is sre_c.MAXREPEAT:
                # loop: cur -> sub -> cur
                s = nfa.new()
                nfa.e(cur, s)
                t = build(nfa, sub, s, flags)
                nfa.e(t, cur)
            else:
                end = nfa.new()
                nfa.e(cur, end)
                for _ in range(hi - lo):
                    cur = build(nfa, sub, cur, flags)
                    nfa.e(cur, end)
                cur = end
        elif op is sre_c.AT:
            nxt = nfa.new()
            if av is sre_c.AT_BEGINNING or av is sre_c.AT_BEGINNING_STRING:
                nfa.e_cond(cur, nxt, "begin")
            elif av is sre_c.AT_END:
                nfa.e_cond(cur, nxt, "end")
            elif av is sre_c.AT_END_STRING:
                nfa.e_cond(cur, nxt, "end_strict")
            else:
                raise RegexUnsupported(f"AT {av}")
            cur = nxt
        else:
            raise RegexUnsupported(f"regex op {op}")
    return cur


_NFA_CACHE: dict = {}


def compile_nfa(pattern: str, flags: int):
    key = (pattern, flags)
    if key not in _NFA_CACHE:
        tree = sre_parse.parse(pattern, flags)
        eff = tree.state.flags if hasattr(tree, "state") else flags
        nfa = NFA()
        s = nfa.new()
        f = build(nfa, tree, s, eff)
        _NFA_CACHE[key] = (nfa, s, f)
    return _NFA_CACHE[key]


def match_term(pattern: str, flags: int, chars, mode="match"):
    """z3 Bool (or python bool) for `re.compile(pattern, flags).<mode>(string)` is truthy.

    chars: tuple of python ints / z3 Int terms (the string, concrete length).
    mode: 'match' (anchored at 0), 'fullmatch', 'search'.
    """
    ckey = (pattern, flags, mode, tuple(c if isinstance(c, int) else c.get_id() for c in chars))
    ent = _MATCH_CACHE.get(ckey)
    if ent is not None and all(isinstance(a, int) or a.eq(b) for a, b in zip(ent[0], chars)):
        return ent[1]
    r = _match_term(pattern, flags, chars, mode)
    _MATCH_CACHE[ckey] = (tuple(chars), r)
    return r


_MATCH_CACHE: dict = {}


def _match_term(pattern, flags, chars, mode):
    nfa, s0, fin = compile_nfa(pattern, flags)
    n = len(chars)
    last_is_nl = None  # term: chars[n-1] == '\n'
    if n > 0:
        c = chars[-1]
        last_is_nl = (c == 10) if isinstance(c, int) else (c == 10)

    by_src = {}
    for q, p, q2 in nfa.trans:
        by_src.setdefault(q, []).append((p, q2))

    def closure(active, pos):
        """active: dict state -> cond (True or z3 Bool). eps-closure at position pos."""
        out = dict(active)
        work = list(active.items())
        seen = set()
        while work:
            q, cond = work.pop()
            for q2, kind in nfa.eps.get(q, ()):
                c2 = cond
                if kind == "begin":
                    if pos != 0:
                        continue
                elif kind == "end":
                    if pos == n:
                        pass
                    elif pos == n - 1:
                        c2 = _and(cond, last_is_nl)
                    else:
                        continue
                elif kind == "end_strict":
                    if pos != n:
                        continue
                if c2 is False:
                    continue
                key = (q2, True if c2 is True else c2.get_id())
                if key in seen:
                    continue
                seen.add(key)
                old = out.get(q2)
                if old is True:
                    continue
                out[q2] = c2 if old is None else _or(old, c2)
                work.append((q2, c2))
        return out

    accept = []
    starts = range(0, n + 1) if mode == "search" else [0]
    active = {}
    for pos in range(0, n + 1):
        if pos in starts:
            active[s0] = True
        active = closure(active, pos)
        if fin in active:
            if mode == "fullmatch":
                if pos == n:
                    accept.append(active[fin])
            else:
                accept.append(active[fin])
        if pos == n:
            break
        c = chars[pos]
        nxt = {}
        for q, cond in active.items():
            for p, q2 in by_src.get(q, ()):
                r = p(c)
                if r is False:
                    continue
                t = _and(cond, r)
                if t is False:
                    continue
                old = nxt.get(q2)
                nxt[q2] = t if old is None else _or(old, t)
        active = nxt
        if not active and mode != "search":
            break
    if not accept:
        return False
    r = accept[0]
    for a in accept[1:]:
        r = _or(r, a)
    if isinstance(r, bool):
        return r
    return z3.simplify(r)


def _same(a, b):
    if a is b:
        return True
    if isinstance(a, bool) or isinstance(b, bool):
        return a is b
    return a.eq(b)


def _and(a, b):
    if a is True:
        return b
    if b is True:
        return a
    if a is False or b is False:
        return False
    return z3.And(a, b)


def _or(a, b):
    if a is True or b is True:
        return True
    if a is False:
        return b
    if b is False:
        return a
    if a.eq(b):
        return a
    return z3.Or(a, b)


def accepted_lengths(pattern: str, flags: int, alphabet: str, max_len: int, mode="match"):
    """The set of n <= max_len such that some string of length n over `alphabet` is accepted
    (exact: existential NFA simulation with concrete characters)."""
    nfa, s0, fin = compile_nfa(pattern, flags)
    codes = [ord(c) for c in alphabet]
    by_src = {}
    for q, p, q2 in nfa.trans:
        by_src.setdefault(q, []).append((p, q2))

    def closure(states, at_begin, can_end, strict_ok=True):
        out = set(states)
        work = list(states)
        while work:
            q = work.pop()
            for q2, kind in nfa.eps.get(q, ()):
                if kind == "begin" and not at_begin:
                    continue
                if kind in ("end", "end_strict") and not can_end:
                    continue
                if kind == "end_strict" and not strict_ok:
                    continue
                if q2 not in out:
                    out.add(q2)
                    work.append(q2)
        return out

    result = set()
    # states reachable after k chars WITHOUT having used an end-anchor
    cur = closure({s0}, True, False)
    for k in range(0, max_len + 1):
        # can we accept with exactly k chars consumed (end anchors allowed now)?
        fin_now = fin in closure(cur, k == 0, True)
        if fin_now:
            result.add(k)
        # `$` also matches just before a final newline: k characters, then "\n"
        if 10 in codes and k + 1 <= max_len and fin in closure(cur, k == 0, True, strict_ok=False) and (
                mode != "fullmatch"):
            result.add(k + 1)
        if k == max_len:
            break
        nxt = set()
        for q in cur:
            for p, q2 in by_src.get(q, ()):
                if any(p(c) is True for c in codes):
                    nxt.add(q2)
        prev_accept_prefix = (mode != "fullmatch") and (fin in cur)
        cur = closure(nxt, False, False)
        if prev_accept_prefix:
            # an unanchored prefix match: every longer string is accepted too
            result.update(range(k, max_len + 1))
            break
    return result
