"""datetime / timedelta models (assumption A11).

SDt is either broken down (y, mo, d, h, mi, s, us) or linear (`lin`: microseconds since
0001-01-01T00:00, proleptic Gregorian).  STd is a total number of microseconds.
"""
from __future__ import annotations

import ast
import datetime as _d

import z3

from . import m_num, m_str, models as M
from .sym import (
    And, Opaque, Or, PyRaise, SBool, SBound, SDt, SFloat, SInt, SStr, STd, Unsupported,
    int_term, is_str, is_symbolic, mk_bool, mk_int, mk_str, str_chars,
)

model = M.model
dt = _d.datetime
td = _d.timedelta
US_DAY = 86400 * 10 ** 6
_TD_US = z3.Function("td_round_us", z3.RealSort(), z3.IntSort())


def _as_int_term(t):
    """Int term equal to the real term t when t is syntactically integer valued, else None."""
    if z3.is_int_value(t):
        return t
    if z3.is_rational_value(t):
        return z3.IntVal(t.numerator_as_long()) if t.denominator_as_long() == 1 else None
    if z3.is_app_of(t, z3.Z3_OP_TO_REAL):
        return t.arg(0)
    if z3.is_app_of(t, z3.Z3_OP_MUL) or z3.is_app_of(t, z3.Z3_OP_ADD):
        parts = [_as_int_term(c) for c in t.children()]
        if any(p is None for p in parts):
            return None
        r = parts[0]
        for p in parts[1:]:
            r = r * p if z3.is_app_of(t, z3.Z3_OP_MUL) else r + p
        return r
    return None


def _iv(v):
    return v if isinstance(v, (int, SInt)) and not isinstance(v, bool) else (int(v) if isinstance(v, bool) else v)


def days_in_month_term(y, m):
    leap = z3.And(y % 4 == 0, z3.Or(y % 100 != 0, y % 400 == 0))
    return z3.If(m == 2, z3.If(leap, 29, 28), z3.If(z3.Or(m == 4, m == 6, m == 9, m == 11), 30, 31))


def make_dt(it, y, mo, d, h=0, mi=0, s=0, us=0):
    vals = [y, mo, d, h, mi, s, us]
    for v in vals:
        if isinstance(v, (SFloat, float)):
            it.py_raise(TypeError, "integer argument expected, got float")
        if not isinstance(v, (int, SInt, SBool)):
            it.py_raise(TypeError, "an integer is required")
    if not is_symbolic(vals):
        try:
            return dt(*[int(v) for v in vals])
        except Exception as e:  # noqa: BLE001
            raise PyRaise(e)
    ty, tm, tdd, th, tmi, ts, tus = [int_term(v) for v in vals]
    ok = z3.And(ty >= 1, ty <= 9999, tm >= 1, tm <= 12, tdd >= 1, tdd <= days_in_month_term(ty, tm),
                th >= 0, th <= 23, tmi >= 0, tmi <= 59, ts >= 0, ts <= 59, tus >= 0, tus <= 999999)
    if not it.decide(ok):
        it.py_raise(ValueError, "datetime field out of range")
    return SDt(*[_norm(v) for v in vals])


def _norm(v):
    if isinstance(v, SBool):
        return mk_int(int_term(v))
    if isinstance(v, bool):
        return int(v)
    return v


@model(dt)
def m_dt(it, args, kw):
    names = ["year", "month", "day", "hour", "minute", "second", "microsecond"]
    vals = list(args)
    if len(vals) > 7 or "tzinfo" in kw or "fold" in kw:
        raise Unsupported("datetime tzinfo/fold")
    d = dict(zip(names, vals))
    for k, v in kw.items():
        if k not in names:
            raise Unsupported(f"datetime kw {k}")
        if k in d:
            it.py_raise(TypeError, f"argument for function given by name ('{k}') and position")
        d[k] = v
    for k in names[:3]:
        if k not in d:
            it.py_raise(TypeError, f"function missing required argument '{k}'")
    return make_dt(it, *[d.get(k, 0) for k in names])


def to_lin(it, v):
    """microseconds since 0001-01-01 as int | z3 term"""
    if isinstance(v, dt):
        if v.tzinfo is not None:
            raise Unsupported("aware datetime")
        delta = v - dt(1, 1, 1)
        return delta.days * US_DAY + delta.seconds * 10 ** 6 + delta.microseconds
    if v.lin is not None:
        return v.lin if isinstance(v.lin, int) else int_term(v.lin)
    y, m, d = int_term(v.y), int_term(v.mo), int_term(v.d)
    # days_from_civil (H. Hinnant), shifted to 0001-01-01 == day 0
    yy = z3.If(m <= 2, y - 1, y)
    era = yy / 400  # Euclidean == floor for positive divisor
    yoe = yy - era * 400
    mp = z3.If(m > 2, m - 3, m + 9)
    doy = (153 * mp + 2) / 5 + d - 1
    doe = yoe * 365 + yoe / 4 - yoe / 100 + doy
    days = era * 146097 + doe - 719468 + 719162  # 719162 = days from 0001-01-01 to 1970-01-01
    return (days * 86400 + int_term(v.h) * 3600 + int_term(v.mi) * 60 + int_term(v.s)) * 10 ** 6 + int_term(v.us)


def td_us(v):
    if isinstance(v, td):
        return v.days * US_DAY + v.seconds * 10 ** 6 + v.microseconds
    return v.us if isinstance(v.us, int) else v.us.t


def mk_td(t):
    if isinstance(t, int):
        return STd(t)
    t = z3.simplify(t)
    if z3.is_int_value(t):
        us = t.as_long()
        try:
            return td(microseconds=us)
        except OverflowError as e:
            raise PyRaise(e)
    return STd(SInt(t))


def is_dt(v):
    return isinstance(v, (SDt, dt))


def is_td(v):
    return isinstance(v, (STd, td))


def dt_binop(it, op, a, b):
    if isinstance(op, ast.Sub) and is_dt(a) and is_dt(b):
        return mk_td(_t(to_lin(it, a)) - _t(to_lin(it, b)))
    if isinstance(op, (ast.Add, ast.Sub)) and is_dt(a) and is_td(b):
        la, ub = _t(to_lin(it, a)), _t(td_us(b))
        r = la + ub if isinstance(op, ast.Add) else la - ub
        # datetime arithmetic leaves 0001-01-01 .. 9999-12-31: OverflowError
        if not it.decide(z3.And(r >= 0, r < 3652059 * US_DAY)):
            it.py_raise(OverflowError, "date value out of range")
        return SDt(lin=mk_int(r))
    if isinstance(op, ast.Add) and is_td(a) and is_dt(b):
        return dt_binop(it, op, b, a)
    if isinstance(op, (ast.Add, ast.Sub)) and is_td(a) and is_td(b):
        ua, ub = _t(td_us(a)), _t(td_us(b))
        return mk_td(ua + ub if isinstance(op, ast.Add) else ua - ub)
    if isinstance(op, ast.Div) and is_td(a) and is_td(b):
        ua, ub = td_us(a), td_us(b)
        return m_num.float_binop(it, op, _w(ua), _w(ub))
    if isinstance(op, ast.FloorDiv) and is_td(a) and is_td(b):
        return m_num.int_binop(it, op, _w(td_us(a)), _w(td_us(b)))
    if isinstance(op, ast.Mult):
        for x, y in ((a, b), (b, a)):
            if is_td(x) and m_num.is_intlike(y):
                return mk_td(_t(td_us(x)) * int_term(y))
        raise Unsupported("timedelta * float (symbolic)")
    if isinstance(op, ast.Div) and is_td(a) and m_num.is_num(b):
        raise Unsupported("timedelta / number (symbolic)")
    it.py_raise(TypeError, f"unsupported operand type(s) for {type(op).__name__}")


def _t(v):
    return z3.IntVal(v) if isinstance(v, int) else v


def _w(v):
    return v if isinstance(v, int) else mk_int(v)


def dt_eq(it, a, b):
    if is_dt(a) and is_dt(b):
        if isinstance(a, SDt) and isinstance(b, SDt) and a.lin is None and b.lin is None:
            r = True
            for x, y in zip(a.fields(), b.fields()):
                r = M.and_values(it, r, M.as_bool_value(it, M.eq(it, x, y)))
            return r
        return mk_bool(_t(to_lin(it, a)) == _t(to_lin(it, b)))
    if is_td(a) and is_td(b):
        return mk_bool(_t(td_us(a)) == _t(td_us(b)))
    return False


def dt_order(it, op, a, b):
    if is_dt(a) and is_dt(b):
        x, y = _t(to_lin(it, a)), _t(to_lin(it, b))
    elif is_td(a) and is_td(b):
        x, y = _t(td_us(a)), _t(td_us(b))
    else:
        it.py_raise(TypeError, "can't compare datetime to timedelta")
    return mk_bool({"<": x < y, "<=": x <= y, ">": x > y, ">=": x >= y}[op])


def _dig(it, v, width):
    """zero padded decimal digits (chars) of a field known to fit in `width` digits."""
    if isinstance(v, int):
        return [ord(c) for c in f"{v:0{width}d}"]
    out = []
    t = v.t
    for i in reversed(range(width)):
        d = z3.simplify((t / (10 ** i)) % 10)
        if z3.is_int_value(d):
            out.append(48 + d.as_long())
        else:
            c = 48 + d
            it.ex.digit_of[c.get_id()] = (d, 10, c)
            out.append(c)
    first = next((c for c in out if not isinstance(c, int)), None)
    if first is not None:
        it.ex.fmt_rec[first.get_id()] = {"chars": list(out), "mag": t, "base": 10, "neg": False}
    return out


def _need_fields(v):
    if v.lin is not None:
        raise Unsupported("broken-down fields of a linear datetime")


def dt_isoformat(it, v, sep="T", timespec="auto"):
    if v.lin is not None:
        from .sym import SUnb
        return SUnb("isoformat")  # some string: its content is not tracked for linear datetimes
    _need_fields(v)
    if isinstance(sep, SStr) or isinstance(timespec, SStr):
        raise Unsupported("symbolic isoformat args")
    cs = _dig(it, v.y, 4) + [45] + _dig(it, v.mo, 2) + [45] + _dig(it, v.d, 2) + [ord(sep)]
    cs += _dig(it, v.h, 2) + [58] + _dig(it, v.mi, 2)
    if timespec == "minutes":
        return mk_str(cs)
    cs += [58] + _dig(it, v.s, 2)
    if timespec == "seconds":
        return mk_str(cs)
    if timespec == "auto":
        if isinstance(v.us, int):
            if v.us == 0:
                return mk_str(cs)
        elif it.decide(v.us.t == 0):
            return mk_str(cs)
        timespec = "microseconds"
    if timespec == "microseconds":
        return mk_str(cs + [46] + _dig(it, v.us, 6))
    if timespec == "milliseconds":
        ms = v.us // 1000 if isinstance(v.us, int) else mk_int(v.us.t / 1000)
        return mk_str(cs + [46] + _dig(it, ms, 3))
    raise Unsupported(f"timespec {timespec}")


def dt_strftime(it, v, fmt):
    if not isinstance(fmt, str):
        raise Unsupported("symbolic strftime format")
    if v.lin is not None:
        import re as _re
        if set(_re.findall(r"%(.)", fmt)) <= set("HMSf%"):
            # time-of-day fields of a linear datetime: lin mod one day
            t = int_term(v.lin) % US_DAY
            v = SDt(1, 1, 1, mk_int(t / (3600 * 10 ** 6)), mk_int((t / (60 * 10 ** 6)) % 60), mk_int((t / 10 ** 6) % 60), mk_int(t % 10 ** 6))
        else:
            from .sym import SUnb
            return SUnb("strftime")
    _need_fields(v)
    out = []
    i = 0
    while i < len(fmt):
        c = fmt[i]
        if c != "%":
            out.append(ord(c))
            i += 1
            continue
        k = fmt[i + 1]
        i += 2
        if k == "Y":
            # NB: glibc strftime does not zero-pad years < 1000
            if isinstance(v.y, int):
                out += [ord(x) for x in dt(v.y, 1, 1).strftime("%Y")]
            else:
                if it.decide(v.y.t >= 1000):
                    out += _dig(it, v.y, 4)
                else:
                    # platform behaviour, probed on the running CPython/libc (A11)
                    if (dt(999, 1, 1).strftime("%Y"), dt(99, 1, 1).strftime("%Y"), dt(9, 1, 1).strftime("%Y")) == ("999", "99", "9"):
                        nd = 3 if it.decide(v.y.t >= 100) else (2 if it.decide(v.y.t >= 10) else 1)
                    elif dt(9, 1, 1).strftime("%Y") == "0009":
                        nd = 4
                    else:
                        raise Unsupported("strftime %Y for year < 1000 (platform dependent)")
                    out += _dig(it, v.y, nd)
        elif k == "y":
            out += _dig(it, v.y % 100 if isinstance(v.y, int) else mk_int(v.y.t % 100), 2)
        elif k == "m":
            out += _dig(it, v.mo, 2)
        elif k == "d":
            out += _dig(it, v.d, 2)
        elif k == "H":
            out += _dig(it, v.h, 2)
        elif k == "M":
            out += _dig(it, v.mi, 2)
        elif k == "S":
            out += _dig(it, v.s, 2)
        elif k == "f":
            out += _dig(it, v.us, 6)
        elif k == "%":
            out.append(37)
        else:
            raise Unsupported(f"strftime %{k}")
    return mk_str(out)


def dt_timetuple(it, v):
    _need_fields(v)
    return (v.y, v.mo, v.d, v.h, v.mi, v.s, Opaque("tm_wday"), Opaque("tm_yday"), -1)


def dt_attr(it, obj, name):
    if isinstance(obj, SDt):
        fieldmap = {"year": "y", "month": "mo", "day": "d", "hour": "h", "minute": "mi", "second": "s", "microsecond": "us"}
        if name in fieldmap:
            _need_fields(obj)
            return getattr(obj, fieldmap[name])
        if name == "tzinfo":
            return None
        if name == "date":
            return lambda: Opaque("date")
        d = getattr(dt, name, None)
        if d is None:
            it.py_raise(AttributeError, f"'datetime.datetime' object has no attribute '{name}'")
        return SBound(d, obj)
    if isinstance(obj, STd):
        if name == "total_seconds":
            return SBound(td.total_seconds, obj)
        if name in ("days", "seconds", "microseconds"):
            u = obj.us.t
            if name == "days":
                return mk_int(u / US_DAY)
            if name == "seconds":
                return mk_int((u % US_DAY) / 10 ** 6)
            return mk_int(u % 10 ** 6)
        raise Unsupported(f"timedelta.{name}")


@model(dt.isoformat)
def m_isoformat(it, args, kw):
    v = args[0]
    sep = args[1] if len(args) > 1 else kw.get("sep", "T")
    ts = args[2] if len(args) > 2 else kw.get("timespec", "auto")
    if isinstance(v, dt):
        return it.call_real(dt.isoformat, [v, sep, ts], {})
    return dt_isoformat(it, v, sep, ts)


@model(dt.strftime)
def m_strftime(it, args, kw):
    if isinstance(args[0], dt) and isinstance(args[1], str):
        return it.call_real(dt.strftime, args, kw)
    return dt_strftime(it, args[0], args[1])


@model(dt.timetuple)
def m_timetuple(it, args, kw):
    if isinstance(args[0], dt):
        return tuple(args[0].timetuple())
    return dt_timetuple(it, args[0])


@model(td.total_seconds)
def m_total_seconds(it, args, kw):
    v = args[0]
    if isinstance(v, td):
        return v.total_seconds()
    return m_num.float_binop(it, ast.Div(), v.us, 10 ** 6)


def _ascii_digit(c):
    if isinstance(c, int):
        return 48 <= c <= 57
    return z3.And(c >= 48, c <= 57)


def _num(cs, it=None):
    first = next((c for c in cs if not isinstance(c, int)), None)
    if it is not None and first is not None:
        rec = it.ex.fmt_rec.get(first.get_id())
        if rec is not None and rec["base"] == 10 and len(rec["chars"]) == len(cs) and all(
                (a == b) if isinstance(a, int) or isinstance(b, int) else a.eq(b) for a, b in zip(rec["chars"], cs)):
            return mk_int(rec["mag"])
    acc = z3.IntVal(0)
    for c in cs:
        acc = acc * 10 + ((c - 48) if not isinstance(c, int) else (c - 48))
    return mk_int(acc)


@model(dt.fromisoformat)
def m_fromisoformat(it, args, kw):
    s = args[-1]
    if isinstance(s, str):
        return it.call_real(dt.fromisoformat, [s], {})
    if type(s).__name__ == "SUnb":
        if it.decide(z3.Bool(it.ex.fresh_name("fromiso_ok"))):
            return fresh_dt(it, "fromiso")
        it.py_raise(ValueError, "Invalid isoformat string")
    if not isinstance(s, SStr):
        it.py_raise(TypeError, "fromisoformat: argument must be str")
    cs = s.chars
    n = len(cs)
    # exact model for the two shapes isoformat() itself produces; any other string:
    # ValueError or *some* datetime (sound over-approximation for exception sets)
    if n in (19, 26):
        shape = And(*[_ceq(cs[i], k) for i, k in ((4, 45), (7, 45), (13, 58), (16, 58))],
                    Or(_ceq(cs[10], 84), _ceq(cs[10], 32)),
                    *([_ceq(cs[19], 46)] if n == 26 else []),
                    *[_bt(_ascii_digit(cs[i])) for i in range(n) if i not in (4, 7, 10, 13, 16, 19)])
        if it.decide(shape):
            y, mo, d = _num(cs[0:4], it), _num(cs[5:7], it), _num(cs[8:10], it)
            h, mi, sec = _num(cs[11:13], it), _num(cs[14:16], it), _num(cs[17:19], it)
            us = _num(cs[20:26], it) if n == 26 else 0
            return make_dt(it, y, mo, d, h, mi, sec, us)
        # python >= 3.11 accepts other separators and some other forms of the same
        # length: not modelled exactly
    if it.decide(z3.Bool(it.ex.fresh_name("fromiso_ok"))):
        return fresh_dt(it, "fromiso")
    it.py_raise(ValueError, "Invalid isoformat string")


def _ceq(c, k):
    if isinstance(c, int):
        return z3.BoolVal(c == k)
    return c == k


def _bt(x):
    return z3.BoolVal(x) if isinstance(x, bool) else x


def fresh_dt(it, base, linear=False):
    nm = it.ex.fresh_name(base)
    if linear:
        t = z3.Int(nm)
        it.ex.add_fact(z3.And(t >= 0, t < 3652059 * US_DAY))
        return SDt(lin=SInt(t))
    f = [z3.Int(f"{nm}_{k}") for k in "YmdHMSf"]
    it.ex.add_fact(z3.And(f[0] >= 1, f[0] <= 9999, f[1] >= 1, f[1] <= 12, f[2] >= 1,
                          f[2] <= days_in_month_term(f[0], f[1]), f[3] >= 0, f[3] <= 23,
                          f[4] >= 0, f[4] <= 59, f[5] >= 0, f[5] <= 59, f[6] >= 0, f[6] <= 999999))
    return SDt(*[SInt(x) for x in f])


@model(dt.fromtimestamp)
def m_fromtimestamp(it, args, kw):
    x = args[-1]
    if not is_symbolic(x):
        return it.call_real(dt.fromtimestamp, [x], kw)
    if kw or len(args) > 2:
        raise Unsupported("fromtimestamp(tz)")
    if isinstance(x, (SInt, SBool)):
        inr = z3.And(int_term(x) >= 86400, int_term(x) <= 253402214400)
    elif isinstance(x, SFloat) and it.float_mode == "real":
        inr = z3.And(x.t >= 86400, x.t <= 253402214400)
    else:
        raise Unsupported("fromtimestamp of this value")
    # within one day of the representable range (any time zone): a datetime; outside:
    # ValueError (year out of range) or OverflowError (platform localtime), per the docs
    if it.decide(inr):
        return fresh_dt(it, "fromts", linear=True)
    k = it.ex.fresh_name("fromts_fail")
    if it.decide(z3.Bool(k + "_ok")):
        return fresh_dt(it, "fromts", linear=True)
    if it.decide(z3.Bool(k + "_value")):
        it.py_raise(ValueError, "year is out of range")
    it.py_raise(OverflowError, "timestamp out of range for platform time_t")


@model(dt.strptime)
def m_strptime(it, args, kw):
    s, fmt = args[-2], args[-1]
    if isinstance(s, str) and isinstance(fmt, str):
        return it.call_real(dt.strptime, [s, fmt], {})
    if fmt == "%y-%m-%dT%H:%M:%S" and isinstance(s, SStr):
        cs = s.chars
        if len(cs) == 17:
            shape = And(*[_ceq(cs[i], k) for i, k in ((2, 45), (5, 45), (8, 84), (11, 58), (14, 58))],
                        *[_bt(_ascii_digit(cs[i])) for i in range(17) if i not in (2, 5, 8, 11, 14)])
            if it.decide(shape):
                yy = _num(cs[0:2], it)
                y = M.binop(it, ast.Add(), yy, 2000) if not isinstance(yy, int) else None
                if isinstance(yy, int):
                    y = yy + (2000 if yy < 69 else 1900)
                else:
                    y = mk_int(z3.If(yy.t < 69, yy.t + 2000, yy.t + 1900))
                return make_dt(it, y, _num(cs[3:5], it), _num(cs[6:8], it), _num(cs[9:11], it), _num(cs[12:14], it), _num(cs[15:17], it))
        raise Unsupported("strptime: string not of the exact zero-padded shape")
    raise Unsupported("strptime (symbolic)")


@model(dt.now, dt.utcnow)
def m_now(it, args, kw):
    return fresh_dt(it, "now", linear=True)


@model(td)
def m_td(it, args, kw):
    names = ["days", "seconds", "microseconds", "milliseconds", "minutes", "hours", "weeks"]
    d = dict(zip(names, args))
    d.update(kw)
    if not is_symbolic(d):
        return it.call_real(td, [], d)
    mult = {"days": US_DAY, "seconds": 10 ** 6, "microseconds": 1, "milliseconds": 1000,
            "minutes": 60 * 10 ** 6, "hours": 3600 * 10 ** 6, "weeks": 7 * US_DAY}
    total = z3.IntVal(0)
    for k, v in d.items():
        if isinstance(v, (SFloat, float)):
            # td(seconds=float): rounded to the nearest microsecond (half-even)
            if k != "seconds":
                raise Unsupported("timedelta(float) for a unit other than seconds")
            prod = m_num.float_binop(it, ast.Mult(), v, 1e6) if False else None
            if it.float_mode != "real":
                raise Unsupported("timedelta(seconds=float) in fp mode")
            # exact short-cut: the float is the rounding of a real x with x * 10^6 an integer
            # (e.g. int / 10): for |x| < 2^30 s the rounding errors stay below half a
            # microsecond, so the result is exactly that integer
            ex_t = getattr(v, "exact", None)
            if ex_t is not None:
                it_ = _as_int_term(z3.simplify(ex_t * 10 ** 6))
                if it_ is not None and it.decide(z3.And(ex_t > -(2 ** 30), ex_t < 2 ** 30)):
                    total = total + it_
                    continue
            vt = m_num.f_term(it, v)
            r = vt * 10 ** 6
            fl = z3.ToInt(r)
            frac = r - z3.ToReal(fl)
            half = z3.RealVal(1) / 2
            # CPython rounds half to even on the exact (double) product; the product's own
            # rounding error is bounded by the same relative error: over-approximate by
            # allowing either neighbour when within 2^-40 of a tie
            us = _TD_US(r)  # functional: the same product rounds to the same microseconds
            eps = z3.RealVal(1) / (2 ** 20)
            it.ex.add_fact(z3.And(z3.ToReal(us) >= r - half - eps, z3.ToReal(us) <= r + half + eps))
            total = total + us
        else:
            total = total + int_term(v) * mult[k]
    t = z3.simplify(total)
    lim = 999999999 * US_DAY
    if not it.decide(z3.And(t >= -lim, t <= lim + US_DAY - 1)):
        it.py_raise(OverflowError, "days out of range for timedelta")
    return mk_td(t)
