"""Suspendable tasks for harnesses: a coroutine of the real code is run (interpreted, or natively)
on its own thread with strict hand-off -- exactly one of harness / task runs at any time -- so that
a harness can stop it at an `await` whose contract calls suspend(tag), let other events happen, and
resume it later with a value or an exception.  This is only control transfer (a coroutine), not
concurrency: there is no scheduling freedom other than the harness's own choices."""
import threading

threading.stack_size(512 * 1024 * 1024)

_LOCAL = threading.local()
_LIVE: list = []


class Abandon(BaseException):
    """Raised inside a suspended task when its path has ended."""


class Task:
    def __init__(self, runner, engine_errors=()):
        self.done = False
        self.value = None
        self.exc = None          # python-level exception (instance) that ended the task
        self.waiting = None      # tag of the suspension point, while suspended
        self._engine_error = None
        self._engine_errors = engine_errors
        self._to_child = threading.Semaphore(0)
        self._to_parent = threading.Semaphore(0)
        self._resume = (None, None)
        self._abandon = False
        self._runner = runner
        self._thread = threading.Thread(target=self._main, daemon=True)
        self._thread.start()
        _LIVE.append(self)

    @property
    def ok(self):
        return self.done and self.exc is None

    def _main(self):
        self._to_child.acquire()
        _LOCAL.task = self
        try:
            if not self._abandon:
                self.value = self._runner(self)
        except Abandon:
            pass
        except BaseException as e:  # noqa: BLE001
            if isinstance(e, self._engine_errors):
                self._engine_error = e
            else:
                self.exc = e
        self.done, self.waiting = True, None
        self._to_parent.release()

    def _switch(self):
        self._to_child.release()
        self._to_parent.acquire()
        if self._engine_error is not None:
            e, self._engine_error = self._engine_error, None
            raise e

    def start(self):
        self._switch()
        return self

    def resume(self, value=None, exc=None):
        if self.done or self.waiting is None:
            raise RuntimeError("resume of a task that is not suspended")
        self._resume = (value, exc)
        self._switch()

    def suspend(self, tag):  # runs on the task's thread
        self.waiting = tag
        self._to_parent.release()
        self._to_child.acquire()
        self.waiting = None
        if self._abandon:
            raise Abandon()
        return self._resume


def current():
    return getattr(_LOCAL, "task", None)


def abandon_all():
    """End of a path: unwind every task that is still suspended (or was never started)."""
    while _LIVE:
        t = _LIVE.pop()
        if not t.done:
            t._abandon = True
            t._to_child.release()
            t._to_parent.acquire()
