"""Symbolic interpreter over the Python AST of the real functions.

Subset and assumed semantics: DESIGN.md sections 3.2 - 3.6 and 4.  Anything outside the
subset raises `Unsupported` (the path is then *undecided*, never a violation).
"""
from __future__ import annotations

import ast
import builtins
import collections
import functools
import types

import z3

from . import api, front
from .sym import (
    FALSE, TRUE, And, Opaque, Or, PathAbort, PyRaise, SBool, SBound, SDt, SFloat, SFunc,
    SInt, SMatch, SObj, SSet, SStr, SSuper, STd, SUnb, Unsupported, bool_term, char_term,
    int_term, is_str, is_symbolic, mk_bool, mk_int, mk_str, str_chars, str_eq_term,
)


class _Return(Exception):
    def __init__(self, value):
        self.value = value


class _Break(Exception):
    pass


class _Continue(Exception):
    pass


class Env:
    OVERLAY: dict = {}  # (id(module dict), name) -> value written during the current run

    __slots__ = ("vars", "parent", "glob", "nonlocals", "globals_decl", "defcls", "self_", "fname")

    def __init__(self, parent, glob, defcls=None, fname="?"):
        self.vars = {}
        self.parent = parent
        self.glob = glob
        self.nonlocals = set()
        self.globals_decl = set()
        self.defcls = defcls
        self.self_ = None
        self.fname = fname

    def lookup(self, name):
        e = self
        while e is not None:
            if name in e.vars:
                return e.vars[name]
            e = e.parent
        ov = Env.OVERLAY.get((id(self.glob), name), Env)
        if ov is not Env:
            return ov
        if name in self.glob:
            return self.glob[name]
        if hasattr(builtins, name):
            return getattr(builtins, name)
        raise PyRaise(NameError(f"name '{name}' is not defined"))

    def store(self, name, value):
        if name in self.nonlocals:
            e = self.parent
            while e is not None:
                if name in e.vars:
                    e.vars[name] = value
                    return
                e = e.parent
            raise Unsupported(f"nonlocal {name} not found")
        if name in self.globals_decl:
            Env.OVERLAY[(id(self.glob), name)] = value  # module state of this run (never the real module)
            return
        self.vars[name] = value


class ClosureCellEnv(Env):
    """Env whose variables are real closure cells of a real function."""


_CMP = {
    ast.Lt: "<", ast.LtE: "<=", ast.Gt: ">", ast.GtE: ">=",
}

MAX_LOOP = 4096


def type_of(v):
    if isinstance(v, SBool):
        return bool
    if isinstance(v, SInt):
        return int
    if isinstance(v, SFloat):
        return float
    if isinstance(v, (SStr, SUnb)):
        return str
    if isinstance(v, SObj):
        return v.cls
    if isinstance(v, SSet):
        return set
    if isinstance(v, (SFunc, SBound)):
        return types.FunctionType
    if isinstance(v, SDt):
        import datetime
        return datetime.datetime
    if isinstance(v, STd):
        import datetime
        return datetime.timedelta
    if isinstance(v, SMatch):
        import re
        return re.Match
    return type(v)


def exc_type(v):
    return type_of(v)


class Interp:
    def __init__(self, ex, subst=None, hooks=None):
        from . import models  # late import (models needs Interp helpers)

        self.ex = ex
        self.models = models
        self.subst = subst or {}  # real function -> replacement callable (spec)
        self.hooks = hooks or {}
        self.depth = 0
        self.inlined: set[str] = set()
        self.float_mode = ex.float_mode
        self.call_log = []
        self.no_subst = False

    # ================================================================== helpers
    def decide(self, t):
        return self.ex.decide(t)

    def truth(self, v) -> bool:
        """Python truthiness, forking when symbolic."""
        if v is None or v is False:
            return False
        if v is True:
            return True
        if isinstance(v, SBool):
            return self.decide(v.t)
        if isinstance(v, SInt):
            return self.decide(v.t != 0)
        if isinstance(v, SFloat):
            return self.decide(self.models.float_ne_zero(self, v))
        if isinstance(v, SStr):
            return len(v) > 0
        if isinstance(v, SUnb):
            return self.decide(z3.Bool(self.ex.fresh_name(f"{v.name}_nonempty")))
        if isinstance(v, SSet):
            return self.decide(Or(*[c for _, c in v.members]))
        if isinstance(v, SObj):
            for nm in ("__bool__", "__len__"):
                m = self.class_lookup(v.cls, nm)
                if m is not None and isinstance(m[0], types.FunctionType):
                    r = self.call(SBound(m[0], v, m[1]), [], {})
                    return self.truth(r)
            return True
        if isinstance(v, (SFunc, SBound, SMatch, Opaque, SDt)):
            return True
        if isinstance(v, STd):
            return self.truth(self.models.eq(self, v.us, 0) is not True) if not isinstance(v.us, SInt) else self.decide(v.us.t != 0)
        if isinstance(v, (list, tuple, dict, set, frozenset, str, bytes, int, float)):
            return bool(v)
        if isinstance(v, types.GeneratorType):
            return True
        try:
            return bool(v)
        except Exception as e:  # noqa: BLE001
            raise Unsupported(f"truth of {type(v).__name__}: {e}")

    def truth_term(self, v):
        """Truthiness as a term, without forking where possible."""
        if isinstance(v, bool):
            return z3.BoolVal(v)
        if isinstance(v, SBool):
            return v.t
        if isinstance(v, SInt):
            return v.t != 0
        if isinstance(v, SSet):
            return Or(*[c for _, c in v.members])
        return z3.BoolVal(self.truth(v))

    def py_raise(self, cls, *args):
        raise PyRaise(self.make_exc(cls, args))

    def make_exc(self, cls, args):
        if not is_symbolic(args):
            try:
                return cls(*args)
            except Exception:  # noqa: BLE001
                pass
        o = SObj(cls, {"args": tuple(args)})
        init = self.class_lookup(cls, "__init__")
        if init is not None and isinstance(init[0], types.FunctionType):
            self.call(SBound(init[0], o, init[1]), list(args), {})
        return o

    # ---------------------------------------------------------------- class lookup
    def class_lookup(self, cls, name, after=None):
        """Find `name` in cls.__mro__ (optionally after class `after`). -> (value, defcls)"""
        mro = cls.__mro__
        if after is not None:
            mro = mro[mro.index(after) + 1:]
        for c in mro:
            if name in c.__dict__:
                return c.__dict__[name], c
        return None

    def getattr_(self, obj, name):
        if isinstance(obj, SObj):
            if name in obj.attrs:
                return obj.attrs[name]
            if name == "__dict__":
                return obj.attrs
            if name == "__class__":
                return obj.cls
            found = self.class_lookup(obj.cls, name)
            if found is None:
                ga = self.class_lookup(obj.cls, "__getattr__")
                if ga is not None and isinstance(ga[0], types.FunctionType):
                    return self.call(SBound(ga[0], obj, ga[1]), [name], {})
                self.py_raise(AttributeError, f"'{obj.cls.__name__}' object has no attribute '{name}'")
            return self.bind_class_attr(found[0], found[1], obj, obj.cls)
        if isinstance(obj, SSuper):
            target = obj.obj
            tcls = type_of(target) if not isinstance(target, type) else target
            found = self.class_lookup(tcls, name, after=obj.cls)
            if found is None:
                self.py_raise(AttributeError, f"super object has no attribute '{name}'")
            return self.bind_class_attr(found[0], found[1], target, tcls)
        if isinstance(obj, (SStr, SInt, SBool, SFloat, SSet, SDt, STd, SMatch, SUnb)):
            return self.models.symbolic_attr(self, obj, name)
        if isinstance(obj, (SFunc, SBound)):
            if name == "__name__":
                return getattr(obj, "name", "?")
            raise Unsupported(f"attribute {name} of function value")
        if isinstance(obj, Opaque):
            h = self.hooks.get("opaque_attr")
            if h:
                return h(self, obj, name)
            raise Unsupported(f"attribute {name} of opaque {obj.name}")
        if isinstance(obj, type) and front.is_user_module(getattr(obj, "__module__", None)):
            found = self.class_lookup(obj, name)
            if found is not None:
                v, dc = found
                if isinstance(v, classmethod):
                    return SBound(v.__func__, obj, dc)
                if isinstance(v, staticmethod):
                    return v.__func__
                if isinstance(v, property):
                    return v
                return v
        if type(obj).__name__ == "SAbsSet":
            d = getattr(dict, name, None) if name == "get" else getattr(list, name, None)
            if d is None:
                self.py_raise(AttributeError, f"'list' object has no attribute '{name}'")
            return SBound(d, obj)
        if type(obj).__name__ == "SByteList":
            d = getattr(bytearray, name, None)
            if d is None:
                self.py_raise(AttributeError, f"'bytearray' object has no attribute '{name}'")
            return SBound(d, obj)
        # real object
        if isinstance(obj, types.ModuleType):
            ov = Env.OVERLAY.get((id(obj.__dict__), name), Env)
            if ov is not Env:
                return ov
        try:
            return getattr(obj, name)
        except AttributeError as e:
            raise PyRaise(e)
        except Exception as e:  # noqa: BLE001  property raising etc.
            raise PyRaise(e)

    def bind_class_attr(self, v, defcls, obj, cls):
        if isinstance(v, types.FunctionType):
            return SBound(v, obj, defcls)
        if isinstance(v, property):
            if v.fget is None:
                self.py_raise(AttributeError, "unreadable attribute")
            return self.call_function(v.fget, [obj], {}, defcls=defcls)
        if isinstance(v, classmethod):
            return SBound(v.__func__, cls, defcls)
        if isinstance(v, staticmethod):
            return v.__func__
        if isinstance(v, functools.cached_property):
            raise Unsupported("cached_property")
        if hasattr(v, "__get__") and not isinstance(v, (type,)) and type(v).__name__ in (
                "method_descriptor", "wrapper_descriptor", "builtin_function_or_method"):
            return SBound(v, obj, defcls)
        return v

    def setattr_(self, obj, name, value):
        if isinstance(obj, SObj):
            found = self.class_lookup(obj.cls, name)
            if found is not None and isinstance(found[0], property):
                if found[0].fset is None:
                    self.py_raise(AttributeError, f"can't set attribute '{name}'")
                self.call_function(found[0].fset, [obj, value], {}, defcls=found[1])
                return
            obj.attrs[name] = value
            return
        h = self.hooks.get("setattr")
        if h and h(self, obj, name, value):
            return
        raise Unsupported(f"attribute store on real object {type(obj).__name__}.{name}")

    # ================================================================== calls
    def call(self, f, args, kwargs):
        self.depth += 1
        if self.depth > 120:
            self.depth -= 1
            raise Unsupported("call depth > 120 (recursion?)")
        try:
            return self._call(f, args, kwargs)
        finally:
            self.depth -= 1

    def _call(self, f, args, kwargs):
        M = self.models
        # substitution by contract / spec
        try:
            sub = self.subst.get(f)
        except TypeError:
            sub = None
        if sub is not None and not self.no_subst:
            return self._call_subst(sub, args, kwargs)
        intr = M.INTRINSICS.get(getattr(f, "__name__", None)) if getattr(f, "__module__", None) == "pyvc.api" else None
        if intr is not None:
            return intr(self, args, kwargs)
        if isinstance(f, SFunc):
            return self.call_sfunc(f, args, kwargs)
        if isinstance(f, SBound):
            if isinstance(f.func, (types.FunctionType, SFunc)):
                if isinstance(f.func, SFunc):
                    return self.call_sfunc(f.func, [f.self_] + list(args), kwargs)
                if (f.func.__module__ or "").startswith("pyvc."):
                    return self.call_real(f.func, [f.self_] + list(args), kwargs)
                if not front.is_user_module(f.func.__module__):
                    return self._call(f.func, [f.self_] + list(args), kwargs)
                try:
                    sub = self.subst.get(f.func)
                except TypeError:
                    sub = None
                if sub is not None:
                    return self._call_subst(sub, [f.self_] + list(args), kwargs)
                return self.call_function(f.func, [f.self_] + list(args), kwargs, defcls=f.defcls)
            return self._call(f.func, [f.self_] + list(args), kwargs)
        if isinstance(f, types.MethodType):
            return self._call(SBound(f.__func__, f.__self__, self._defcls_of(f)), args, kwargs)
        if isinstance(f, types.FunctionType):
            if (f.__module__ or "").startswith("pyvc."):
                return self.call_real(f, args, kwargs)
            if front.is_user_module(f.__module__):
                return self.call_function(f, args, kwargs)
            m = M.lookup_model(f)
            if m is not None:
                return m(self, args, kwargs)
            if not is_symbolic(args) and not is_symbolic(kwargs):
                return self.call_real(f, args, kwargs)
            raise Unsupported(f"call of library function {f.__module__}.{f.__qualname__} with symbolic args")
        if isinstance(f, functools._lru_cache_wrapper):
            return self.call_cached(f, args, kwargs)
        if isinstance(f, type):
            return self.construct(f, args, kwargs)
        if isinstance(f, functools.partial):
            return self._call(f.func, list(f.args) + list(args), {**f.keywords, **kwargs})
        m = M.lookup_model(f)
        if m is not None:
            r = m(self, args, kwargs)
            if r is not NotImplemented:
                return r
        # builtin bound method, e.g. " ".join or d.get
        self_ = getattr(f, "__self__", None)
        if self_ is not None and not isinstance(self_, types.ModuleType) and callable(f):
            desc = getattr(type(self_), getattr(f, "__name__", ""), None)
            m = M.lookup_model(desc) if desc is not None else None
            if m is not None:
                r = m(self, [self_] + list(args), kwargs)
                if r is not NotImplemented:
                    return r
        if callable(f) and not is_symbolic(args) and not is_symbolic(kwargs):
            return self.call_real(f, args, kwargs)
        if callable(f) and getattr(f, "__self__", None) is not None and isinstance(
                f.__self__, (list, dict, set, collections.deque)) and f.__name__ in (
                "append", "extend", "insert", "add", "update", "setdefault", "pop", "clear", "copy",
                "items", "values", "keys", "popleft", "appendleft"):
            # container mutators are safe to run for real with symbolic payloads
            if f.__name__ in ("append", "insert", "extend", "clear", "copy", "items", "values", "keys", "popleft", "appendleft"):
                return f(*args, **kwargs)
            if f.__name__ in ("add",) and not is_symbolic(args):
                return f(*args)
        raise Unsupported(f"call of {getattr(f, '__qualname__', f)!r} with symbolic args")

    def _call_subst(self, sub, args, kwargs):
        """A callee replaced by its contract: either an engine-level callable
        (it, args, kwargs) or a spec function from contracts/ (interpreted)."""
        if isinstance(sub, type) and (sub.__module__ or "").startswith("contracts"):
            return self.construct(sub, list(args), kwargs)
        if isinstance(sub, types.FunctionType) and (sub.__module__ or "").startswith("contracts"):
            self.call_log.append(sub.__qualname__)
            return self.call_function(sub, list(args), kwargs)
        return sub(self, args, kwargs)

    def _defcls_of(self, m):
        func = m.__func__
        owner = m.__self__ if isinstance(m.__self__, type) else type(m.__self__)
        for c in owner.__mro__:
            if c.__dict__.get(func.__name__) is func or getattr(c.__dict__.get(func.__name__), "__func__", None) is func:
                return c
        return None

    def call_real(self, f, args, kwargs):
        try:
            return f(*args, **kwargs)
        except (Unsupported, PathAbort, PyRaise):
            raise
        except Exception as e:  # noqa: BLE001
            raise PyRaise(e)

    def call_cached(self, f, args, kwargs):
        """functools.lru_cache model: memo keyed by symbolic equality (A8)."""
        inner = f.__wrapped__
        memo = self.ex.memo.setdefault(id(f), [])
        key = (tuple(args), tuple(sorted(kwargs.items())))
        for k, v in memo:
            if len(k[0]) == len(key[0]) and [a for a, _ in k[1]] == [a for a, _ in key[1]]:
                t = And(*[bool_term_of(self.models.eq(self, a, b)) for a, b in zip(k[0], key[0])],
                        *[bool_term_of(self.models.eq(self, a[1], b[1])) for a, b in zip(k[1], key[1])])
                if self.decide(t):
                    if isinstance(v, PyRaise):
                        # lru_cache does not cache exceptions: re-run
                        break
                    return v
        r = self._call(inner, args, kwargs)
        memo.append((key, r))
        return r

    def construct(self, cls, args, kwargs):
        M = self.models
        m = M.lookup_model(cls)
        if m is not None:
            r = m(self, args, kwargs)
            if r is not NotImplemented:
                return r
        if isinstance(cls, type) and issubclass(cls, BaseException):
            if front.is_user_module(cls.__module__) or is_symbolic(args):
                return self.make_exc(cls, args)
            return self.call_real(cls, args, kwargs)
        if front.is_user_module(getattr(cls, "__module__", None)):
            new = self.class_lookup(cls, "__new__")
            if new is not None and new[1] is not object and front.is_user_module(new[1].__module__):
                raise Unsupported(f"custom __new__ in {cls.__name__}")
            if any(b.__module__ == "enum" for b in cls.__mro__):
                if not is_symbolic(args):
                    return self.call_real(cls, args, kwargs)
                raise Unsupported("Enum lookup with symbolic value")
            o = SObj(cls, {})
            init = self.class_lookup(cls, "__init__")
            if init is not None and isinstance(init[0], types.FunctionType):
                self.call_function(init[0], [o] + list(args), kwargs, defcls=init[1])
            return o
        if not is_symbolic(args) and not is_symbolic(kwargs):
            return self.call_real(cls, args, kwargs)
        raise Unsupported(f"construct {cls.__name__} with symbolic args")

    # ---------------------------------------------------------------- functions
    def call_function(self, f, args, kwargs, defcls=None):
        try:
            sub = self.subst.get(f)
        except TypeError:
            sub = None
        if sub is not None and sub is not f and not self.no_subst:
            return self._call_subst(sub, args, kwargs)
        node, _path = front.func_ast(f)
        if isinstance(node, ast.AsyncFunctionDef):
            return SCoroutine(self, f, args, kwargs, defcls)
        return self.run_function(f, node, args, kwargs, defcls)

    def run_function(self, f, node, args, kwargs, defcls):
        env = Env(None, f.__globals__, defcls=defcls, fname=f.__qualname__)
        if f.__closure__:
            for nm, cell in zip(f.__code__.co_freevars, f.__closure__):
                try:
                    env.vars[nm] = cell.cell_contents
                except ValueError:
                    pass
            if "__class__" in env.vars and defcls is None:
                env.defcls = env.vars["__class__"]
            inner = Env(env, f.__globals__, defcls=env.defcls, fname=f.__qualname__)
            env = inner
        self.inlined.add(f"{f.__module__}:{f.__qualname__}")
        defaults = list(f.__defaults__ or ())
        kwdefaults = dict(f.__kwdefaults__ or {})
        self.bind_args(node.args, env, args, kwargs, defaults, kwdefaults, f.__qualname__)
        if args:
            env.self_ = args[0]
        return self.run_body(node, env)

    def call_sfunc(self, sf, args, kwargs):
        env = Env(sf.env, sf.glob, defcls=sf.defcls, fname=sf.name)
        env.self_ = sf.env.self_ if sf.env is not None else None
        self.bind_args(sf.node.args, env, args, kwargs, sf.defaults, sf.kwdefaults, sf.name)
        if isinstance(sf.node, ast.AsyncFunctionDef):
            return SCoroutine(self, sf, args, kwargs, sf.defcls, env=env)
        return self.run_body(sf.node, env)

    def run_body(self, node, env):
        if isinstance(node, ast.Lambda):
            return self.eval(node.body, env)
        for n in ast.walk(node):
            if isinstance(n, (ast.Yield, ast.YieldFrom)):
                # generator function: only if the yield belongs to this def
                if self._owns(node, n):
                    return self.run_generator(node, env)
        try:
            self.exec_block(node.body, env)
        except _Return as r:
            return r.value
        return None

    def _owns(self, fnode, target):
        stack = list(fnode.body)
        while stack:
            n = stack.pop()
            if n is target:
                return True
            if isinstance(n, (ast.FunctionDef, ast.AsyncFunctionDef, ast.Lambda)):
                continue
            stack.extend(ast.iter_child_nodes(n))
        return False

    def run_generator(self, node, env):
        """Generator functions are run eagerly; the yields are collected (documented
        deviation: interleaving with the consumer is lost -- only used where the consumer
        does not share state with the generator body, see contracts)."""
        out = []
        env.vars["__yield__"] = out
        try:
            self.exec_block(node.body, env)
        except _Return:
            pass
        return out

    def bind_args(self, a: ast.arguments, env, args, kwargs, defaults, kwdefaults, fname):
        args = list(args)
        kwargs = dict(kwargs)
        pos_params = [p.arg for p in a.posonlyargs] + [p.arg for p in a.args]
        n_posonly = len(a.posonlyargs)
        n = len(pos_params)
        if len(args) > n and a.vararg is None:
            self.py_raise(TypeError, f"{fname}() takes {n} positional arguments but {len(args)} were given")
        for i, nm in enumerate(pos_params):
            if i < len(args):
                if nm in kwargs and i >= n_posonly:
                    self.py_raise(TypeError, f"{fname}() got multiple values for argument '{nm}'")
                env.vars[nm] = args[i]
            elif nm in kwargs and i >= n_posonly:
                env.vars[nm] = kwargs.pop(nm)
            else:
                di = i - (n - len(defaults))
                if di >= 0:
                    env.vars[nm] = defaults[di]
                else:
                    self.py_raise(TypeError, f"{fname}() missing required argument '{nm}'")
        if a.vararg is not None:
            env.vars[a.vararg.arg] = tuple(args[n:])
        for p in a.kwonlyargs:
            if p.arg in kwargs:
                env.vars[p.arg] = kwargs.pop(p.arg)
            elif p.arg in kwdefaults:
                env.vars[p.arg] = kwdefaults[p.arg]
            else:
                self.py_raise(TypeError, f"{fname}() missing keyword-only argument '{p.arg}'")
        if a.kwarg is not None:
            env.vars[a.kwarg.arg] = kwargs
        elif kwargs:
            self.py_raise(TypeError, f"{fname}() got an unexpected keyword argument '{next(iter(kwargs))}'")

    # ================================================================== statements
    def exec_block(self, stmts, env):
        for s in stmts:
            self.exec(s, env)

    def exec(self, s, env):
        m = getattr(self, "x_" + type(s).__name__, None)
        if m is None:
            raise Unsupported(f"statement {type(s).__name__} (line {getattr(s, 'lineno', '?')})")
        return m(s, env)

    def x_Expr(self, s, env):
        if isinstance(s.value, ast.Constant):
            return  # docstring
        if isinstance(s.value, (ast.Yield,)):
            v = self.eval(s.value.value, env) if s.value.value is not None else None
            env.lookup("__yield__").append(v)
            return
        self.eval(s.value, env)

    def x_Pass(self, s, env):
        pass

    def x_Global(self, s, env):
        env.globals_decl.update(s.names)

    def x_Nonlocal(self, s, env):
        env.nonlocals.update(s.names)

    def x_Import(self, s, env):
        import importlib
        for al in s.names:
            mod = importlib.import_module(al.name)
            if al.asname:
                env.store(al.asname, mod)
            else:
                env.store(al.name.split(".")[0], importlib.import_module(al.name.split(".")[0]))

    def x_ImportFrom(self, s, env):
        import importlib
        pkg = env.glob.get("__package__") or env.glob.get("__name__", "").rpartition(".")[0]
        name = ("." * s.level) + (s.module or "")
        mod = importlib.import_module(name, package=pkg) if s.level else importlib.import_module(s.module)
        for al in s.names:
            try:
                v = getattr(mod, al.name)
            except AttributeError:
                v = importlib.import_module(f"{mod.__name__}.{al.name}")
            env.store(al.asname or al.name, v)

    def x_Return(self, s, env):
        raise _Return(self.eval(s.value, env) if s.value is not None else None)

    def x_Break(self, s, env):
        raise _Break()

    def x_Continue(self, s, env):
        raise _Continue()

    def x_Assign(self, s, env):
        v = self.eval(s.value, env)
        for t in s.targets:
            self.assign(t, v, env)

    def x_AnnAssign(self, s, env):
        if s.value is not None:
            self.assign(s.target, self.eval(s.value, env), env)

    def x_AugAssign(self, s, env):
        if isinstance(s.target, ast.Name):
            cur = env.lookup(s.target.id)
            new = self.binop(s.op, cur, self.eval(s.value, env), inplace=True)
            env.store(s.target.id, new)
        elif isinstance(s.target, ast.Attribute):
            obj = self.eval(s.target.value, env)
            cur = self.getattr_(obj, s.target.attr)
            new = self.binop(s.op, cur, self.eval(s.value, env), inplace=True)
            self.setattr_(obj, s.target.attr, new)
        elif isinstance(s.target, ast.Subscript):
            obj = self.eval(s.target.value, env)
            idx = self.eval_index(s.target.slice, env)
            cur = self.models.getitem(self, obj, idx)
            new = self.binop(s.op, cur, self.eval(s.value, env), inplace=True)
            self.models.setitem(self, obj, idx, new)
        else:
            raise Unsupported("augassign target")

    def assign(self, t, v, env):
        if isinstance(t, ast.Name):
            env.store(t.id, v)
        elif isinstance(t, ast.Attribute):
            self.setattr_(self.eval(t.value, env), t.attr, v)
        elif isinstance(t, ast.Subscript):
            obj = self.eval(t.value, env)
            self.models.setitem(self, obj, self.eval_index(t.slice, env), v)
        elif isinstance(t, (ast.Tuple, ast.List)):
            items = list(self.models.iterate(self, v))
            star = [i for i, e in enumerate(t.elts) if isinstance(e, ast.Starred)]
            if star:
                si = star[0]
                after = len(t.elts) - si - 1
                if len(items) < len(t.elts) - 1:
                    self.py_raise(ValueError, "not enough values to unpack")
                for e, x in zip(t.elts[:si], items[:si]):
                    self.assign(e, x, env)
                self.assign(t.elts[si].value, list(items[si:len(items) - after]), env)
                for e, x in zip(t.elts[si + 1:], items[len(items) - after:]):
                    self.assign(e, x, env)
            else:
                if len(items) != len(t.elts):
                    self.py_raise(ValueError, f"unpack: expected {len(t.elts)}, got {len(items)}")
                for e, x in zip(t.elts, items):
                    self.assign(e, x, env)
        elif isinstance(t, ast.Starred):
            self.assign(t.value, v, env)
        else:
            raise Unsupported(f"assign target {type(t).__name__}")

    def x_Delete(self, s, env):
        for t in s.targets:
            if isinstance(t, ast.Subscript):
                obj = self.eval(t.value, env)
                self.models.delitem(self, obj, self.eval_index(t.slice, env))
            elif isinstance(t, ast.Name):
                env.vars.pop(t.id, None)
            elif isinstance(t, ast.Attribute):
                obj = self.eval(t.value, env)
                if isinstance(obj, SObj):
                    if t.attr not in obj.attrs:
                        self.py_raise(AttributeError, t.attr)
                    del obj.attrs[t.attr]
                else:
                    raise Unsupported("del attribute of real object")
            else:
                raise Unsupported("del target")

    def x_If(self, s, env):
        if self.truth(self.eval(s.test, env)):
            self.exec_block(s.body, env)
        else:
            self.exec_block(s.orelse, env)

    def x_Assert(self, s, env):
        if not self.truth(self.eval(s.test, env)):
            args = []
            if s.msg is not None:
                args = [self.eval(s.msg, env)]
            raise PyRaise(self.make_exc(AssertionError, args))

    def x_While(self, s, env):
        n = 0
        while True:
            if not self.truth(self.eval(s.test, env)):
                self.exec_block(s.orelse, env)
                return
            n += 1
            if n > MAX_LOOP:
                raise Unsupported("while loop exceeds MAX_LOOP iterations (needs an invariant)")
            try:
                self.exec_block(s.body, env)
            except _Break:
                return
            except _Continue:
                continue

    def x_For(self, s, env):
        it = self.models.iterate(self, self.eval(s.iter, env))
        n = 0
        for v in it:
            n += 1
            if n > MAX_LOOP:
                raise Unsupported("for loop exceeds MAX_LOOP iterations")
            self.assign(s.target, v, env)
            try:
                self.exec_block(s.body, env)
            except _Break:
                return
            except _Continue:
                continue
        self.exec_block(s.orelse, env)

    def x_AsyncFor(self, s, env):
        raise Unsupported("async for")

    def x_With(self, s, env):
        mgrs = []
        for item in s.items:
            cm = self.eval(item.context_expr, env)
            v = self.models.ctx_enter(self, cm)
            mgrs.append(cm)
            if item.optional_vars is not None:
                self.assign(item.optional_vars, v, env)
        try:
            self.exec_block(s.body, env)
        except PyRaise as e:
            suppressed = False
            for cm in reversed(mgrs):
                if self.models.ctx_exit(self, cm, e.value):
                    suppressed = True
            if not suppressed:
                raise
        except (_Return, _Break, _Continue):
            for cm in reversed(mgrs):
                self.models.ctx_exit(self, cm, None)
            raise
        else:
            for cm in reversed(mgrs):
                self.models.ctx_exit(self, cm, None)

    x_AsyncWith = x_With

    def x_Raise(self, s, env):
        if s.exc is None:
            cur = env.lookup("__current_exc__")
            raise PyRaise(cur)
        v = self.eval(s.exc, env)
        if isinstance(v, type) and issubclass(v, BaseException):
            v = self.construct(v, [], {})
        if s.cause is not None:
            self.eval(s.cause, env)
        raise PyRaise(v)

    def exc_matches(self, excval, typ):
        et = exc_type(excval)
        if isinstance(typ, tuple):
            return any(self.exc_matches(excval, t) for t in typ)
        if isinstance(typ, type):
            return issubclass(et, typ)
        raise Unsupported("except clause with non-class")

    def x_Try(self, s, env):
        try:
            try:
                self.exec_block(s.body, env)
            except PyRaise as e:
                for h in s.handlers:
                    if h.type is None or self.exc_matches(e.value, self.eval(h.type, env)):
                        if h.name:
                            env.store(h.name, e.value)
                        saved = env.vars.get("__current_exc__")
                        env.vars["__current_exc__"] = e.value
                        try:
                            self.exec_block(h.body, env)
                        finally:
                            if saved is None:
                                env.vars.pop("__current_exc__", None)
                            else:
                                env.vars["__current_exc__"] = saved
                        break
                else:
                    raise
            else:
                self.exec_block(s.orelse, env)
        finally:
            # NB: runs for PyRaise/_Return/_Break/_Continue; engine signals
            # (Unsupported/PathAbort) also pass here but then the path is dead anyway
            import sys
            et = sys.exc_info()[0]
            if et is None or not issubclass(et, (Unsupported, PathAbort)):
                self.exec_block(s.finalbody, env)

    def x_FunctionDef(self, s, env):
        sf = self.make_sfunc(s, env, s.name)
        v = sf
        # a function defined inside a real function may be replaced by its contract (modular verification of
        # inner functions): subst key "module:Outer.<locals>.name"
        if not self.no_subst and self.subst:
            key = f"{env.glob.get('__name__')}:{getattr(env, 'fname', None)}.<locals>.{s.name}"
            if key in self.subst:
                v = self.subst[key]
                front.USED.setdefault("contract-of:" + key, {"function": key, "file": "(replaced by its contract)", "lines": [s.lineno, s.end_lineno], "sha256": ""})
                env.store(s.name, v)
                return
        for d in reversed(s.decorator_list):
            dec = self.eval(d, env)
            v = self.call(dec, [v], {})
        env.store(s.name, v)

    x_AsyncFunctionDef = x_FunctionDef

    def make_sfunc(self, node, env, name):
        sf = SFunc(node, env, env.glob, env.defcls, name, env.glob.get("__name__"))
        a = node.args
        sf.defaults = [self.eval(d, env) for d in a.defaults]
        sf.kwdefaults = {p.arg: self.eval(d, env) for p, d in zip(a.kwonlyargs, a.kw_defaults) if d is not None}
        return sf

    def x_ClassDef(self, s, env):
        raise Unsupported("class definition inside function")

    def x_Match(self, s, env):
        subj = self.eval(s.subject, env)
        for case in s.cases:
            p = case.pattern
            ok = None
            if isinstance(p, ast.MatchValue):
                ok = self.truth(self.models.eq(self, subj, self.eval(p.value, env)))
            elif isinstance(p, ast.MatchAs) and p.pattern is None:
                ok = True
                if p.name:
                    env.store(p.name, subj)
            elif isinstance(p, ast.MatchOr) and all(isinstance(q, ast.MatchValue) for q in p.patterns):
                ok = any(self.truth(self.models.eq(self, subj, self.eval(q.value, env))) for q in p.patterns)
            else:
                raise Unsupported("match pattern")
            if ok and (case.guard is None or self.truth(self.eval(case.guard, env))):
                self.exec_block(case.body, env)
                return

    # ================================================================== expressions
    def eval(self, e, env):
        m = getattr(self, "e_" + type(e).__name__, None)
        if m is None:
            raise Unsupported(f"expression {type(e).__name__}")
        return m(e, env)

    def e_Constant(self, e, env):
        return e.value

    def e_Name(self, e, env):
        return env.lookup(e.id)

    def e_Attribute(self, e, env):
        return self.getattr_(self.eval(e.value, env), e.attr)

    def e_NamedExpr(self, e, env):
        v = self.eval(e.value, env)
        # walrus binds in the enclosing function scope
        env.store(e.target.id, v)
        return v

    def eval_index(self, sl, env):
        if isinstance(sl, ast.Slice):
            return slice(
                self.eval(sl.lower, env) if sl.lower is not None else None,
                self.eval(sl.upper, env) if sl.upper is not None else None,
                self.eval(sl.step, env) if sl.step is not None else None,
            )
        return self.eval(sl, env)

    def e_Subscript(self, e, env):
        obj = self.eval(e.value, env)
        idx = self.eval_index(e.slice, env)
        return self.models.getitem(self, obj, idx)

    def e_Tuple(self, e, env):
        return tuple(self.eval_elts(e.elts, env))

    def e_List(self, e, env):
        return list(self.eval_elts(e.elts, env))

    def eval_elts(self, elts, env):
        out = []
        for x in elts:
            if isinstance(x, ast.Starred):
                out.extend(self.models.iterate(self, self.eval(x.value, env)))
            else:
                out.append(self.eval(x, env))
        return out

    def e_Set(self, e, env):
        items = self.eval_elts(e.elts, env)
        if not is_symbolic(items):
            return set(items)
        return SSet([(x, TRUE) for x in items])

    def e_Dict(self, e, env):
        d = {}
        for k, v in zip(e.keys, e.values):
            if k is None:
                src = self.eval(v, env)
                if isinstance(src, dict):
                    for kk, vv in src.items():
                        self.models.dict_set(self, d, kk, vv)
                else:
                    raise Unsupported("** of non-dict in dict display")
            else:
                kk = self.eval(k, env)
                self.models.dict_set(self, d, kk, self.eval(v, env))
        return d

    def e_IfExp(self, e, env):
        if self.truth(self.eval(e.test, env)):
            return self.eval(e.body, env)
        return self.eval(e.orelse, env)

    def e_BoolOp(self, e, env):
        if isinstance(e.op, ast.And):
            v = True
            for x in e.values:
                v = self.eval(x, env)
                if not self.truth(v):
                    return v
            return v
        v = False
        for x in e.values:
            v = self.eval(x, env)
            if self.truth(v):
                return v
        return v

    def e_UnaryOp(self, e, env):
        v = self.eval(e.operand, env)
        if isinstance(e.op, ast.Not):
            if isinstance(v, SBool):
                return mk_bool(z3.Not(v.t))
            if isinstance(v, SInt):
                return mk_bool(v.t == 0)
            return not self.truth(v)
        if isinstance(e.op, ast.USub):
            return self.models.neg(self, v)
        if isinstance(e.op, ast.UAdd):
            return v
        if isinstance(e.op, ast.Invert):
            if isinstance(v, (int, SInt)):
                return self.models.neg(self, self.binop(ast.Add(), v, 1))
        raise Unsupported("unary op")

    def e_BinOp(self, e, env):
        return self.binop(e.op, self.eval(e.left, env), self.eval(e.right, env))

    def binop(self, op, a, b, inplace=False):
        return self.models.binop(self, op, a, b, inplace)

    def e_Compare(self, e, env):
        left = self.eval(e.left, env)
        result = True
        n = len(e.ops)
        for i, (op, rn) in enumerate(zip(e.ops, e.comparators)):
            right = self.eval(rn, env)
            r = self.compare(op, left, right)
            if i == n - 1:
                if result is True:
                    return r
                # chained: combine without forking when both are terms
                return self.models.and_values(self, result, r)
            if n > 1:
                # chained comparison short-circuits
                if isinstance(r, (bool, SBool)) and isinstance(result, (bool, SBool)):
                    result = self.models.and_values(self, result, r)
                    if result is False:
                        return False
                else:
                    if not self.truth(r):
                        return r
            left = right
        return result

    def compare(self, op, a, b):
        M = self.models
        if isinstance(op, ast.Eq):
            return M.eq(self, a, b)
        if isinstance(op, ast.NotEq):
            return M.not_(self, M.eq(self, a, b))
        if isinstance(op, ast.Is):
            return M.is_(self, a, b)
        if isinstance(op, ast.IsNot):
            return M.not_(self, M.is_(self, a, b))
        if isinstance(op, ast.In):
            return M.contains(self, b, a)
        if isinstance(op, ast.NotIn):
            return M.not_(self, M.contains(self, b, a))
        return M.order(self, _CMP[type(op)], a, b)

    def e_Call(self, e, env):
        # zero-argument super()
        if isinstance(e.func, ast.Name) and e.func.id == "super" and not e.args:
            if env.defcls is None:
                d = env
                while d is not None and d.defcls is None:
                    d = d.parent
                defcls = d.defcls if d else None
            else:
                defcls = env.defcls
            selfv = self._find_self(env)
            if defcls is None or selfv is None:
                raise Unsupported("super() outside method")
            return SSuper(defcls, selfv)
        f = self.eval(e.func, env)
        args = []
        for a in e.args:
            if isinstance(a, ast.Starred):
                args.extend(self.models.iterate(self, self.eval(a.value, env)))
            else:
                args.append(self.eval(a, env))
        kwargs = {}
        for k in e.keywords:
            if k.arg is None:
                d = self.eval(k.value, env)
                if not isinstance(d, dict):
                    raise Unsupported("** of non-dict")
                kwargs.update(d)
            else:
                kwargs[k.arg] = self.eval(k.value, env)
        return self.call(f, args, kwargs)

    def _find_self(self, env):
        d = env
        while d is not None:
            if d.self_ is not None:
                return d.self_
            d = d.parent
        return None

    def e_Lambda(self, e, env):
        return self.make_sfunc(e, env, "<lambda>")

    def e_JoinedStr(self, e, env):
        parts = []
        opaque = False
        for v in e.values:
            if isinstance(v, ast.Constant):
                parts.append(v.value)
            else:
                val = self.eval(v.value, env)
                spec = ""
                if v.format_spec is not None:
                    spec = self.eval(v.format_spec, env)
                    if not isinstance(spec, str):
                        raise Unsupported("symbolic format spec")
                conv = {-1: None, 115: "s", 114: "r", 97: "a"}[v.conversion]
                try:
                    parts.append(self.models.format_value(self, val, spec, conv))
                except Unsupported:
                    opaque = True
        if opaque or any(isinstance(p, Opaque) for p in parts):
            return Opaque("str")
        return self.models.str_concat(parts)

    def e_FormattedValue(self, e, env):
        raise Unsupported("bare FormattedValue")

    def comp_iter(self, gens, env, body):
        """Generic nested comprehension driver (lazy python generator)."""
        def rec(i):
            if i == len(gens):
                yield body()
                return
            g = gens[i]
            if g.is_async:
                raise Unsupported("async comprehension")
            for v in self.models.iterate(self, self.eval(g.iter, env)):
                self.assign(g.target, v, env)
                if all(self.truth(self.eval(c, env)) for c in g.ifs):
                    yield from rec(i + 1)
        return rec(0)

    def e_ListComp(self, e, env):
        cenv = Env(env, env.glob, env.defcls, env.fname)
        return list(self.comp_iter(e.generators, cenv, lambda: self.eval(e.elt, cenv)))

    def e_GeneratorExp(self, e, env):
        cenv = Env(env, env.glob, env.defcls, env.fname)
        return self.comp_iter(e.generators, cenv, lambda: self.eval(e.elt, cenv))

    def e_SetComp(self, e, env):
        cenv = Env(env, env.glob, env.defcls, env.fname)
        items = list(self.comp_iter(e.generators, cenv, lambda: self.eval(e.elt, cenv)))
        if not is_symbolic(items):
            return set(items)
        return SSet([(x, TRUE) for x in items])

    def e_DictComp(self, e, env):
        cenv = Env(env, env.glob, env.defcls, env.fname)
        d = {}
        for k, v in self.comp_iter(e.generators, cenv,
                                   lambda: (self.eval(e.key, cenv), self.eval(e.value, cenv))):
            self.models.dict_set(self, d, k, v)
        return d

    def e_Starred(self, e, env):
        raise Unsupported("starred expression here")

    def e_Await(self, e, env):
        v = self.eval(e.value, env)
        h = self.hooks.get("await")
        if h is not None:
            return h(self, v, env)
        return self.await_value(v)

    def await_value(self, v):
        if isinstance(v, SCoroutine):
            return v.run()
        if type(v).__name__ == "SSleep":
            self.ex.ghosts.setdefault("sleeps", []).append(v.delay)  # ghost: the delays slept, in order
            h = self.hooks.get("sleep")
            if h is not None:
                h(self, v)
            return v.result
        m = self.hooks.get("await_other")
        if m is not None:
            return m(self, v)
        raise Unsupported(f"await of {type(v).__name__}")

    def e_Slice(self, e, env):
        return self.eval_index(e, env)


class SCoroutine:
    """An un-awaited call of an interpreted `async def`."""

    def __init__(self, it, f, args, kwargs, defcls, env=None):
        self.it, self.f, self.args, self.kwargs, self.defcls, self.env = it, f, args, kwargs, defcls, env
        self.started = False

    def run(self):
        if self.started:
            raise Unsupported("coroutine awaited twice")
        self.started = True
        it = self.it
        if isinstance(self.f, SFunc):
            return it.run_body(self.f.node, self.env)
        node, _ = front.func_ast(self.f)
        return it.run_function(self.f, node, self.args, self.kwargs, self.defcls)


def bool_term_of(v):
    if isinstance(v, bool):
        return z3.BoolVal(v)
    if isinstance(v, SBool):
        return v.t
    raise Unsupported("bool term of non-bool")
