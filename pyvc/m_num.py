"""Numeric models: ints (z3 Int, A1) and floats (A2, two encodings)."""
from __future__ import annotations

import ast
import fractions
import math

import z3

from .sym import (
    And, Or, PyRaise, SBool, SFloat, SInt, Unsupported, int_term, mk_bool, mk_int,
)

EPS = z3.RealVal(1) / z3.RealVal(2 ** 53)  # unit round-off of binary64
TINY = z3.RealVal(1) / z3.RealVal(2 ** 1074)  # smallest subnormal
FMAX = z3.RealVal(2 ** 1023)
F64 = z3.Float64()
FL = z3.Function("fl", z3.RealSort(), z3.RealSort())
RNE = z3.RNE()
RTZ = z3.RTZ()


def is_intlike(v):
    return isinstance(v, (bool, int, SBool, SInt))


def is_floatlike(v):
    return isinstance(v, (float, SFloat))


def is_num(v):
    return is_intlike(v) or is_floatlike(v)


# ------------------------------------------------------------------ floats
def real_of_pyfloat(c: float):
    if math.isinf(c) or math.isnan(c):
        raise Unsupported("inf/nan constant in real float mode")
    fr = fractions.Fraction(c)
    return z3.RealVal(fr.numerator) / z3.RealVal(fr.denominator) if fr.denominator != 1 else z3.RealVal(fr.numerator)


def _mentions_fl_or_div(t, _d=0):
    """Syntactic test: the term is built with a rounded value (FL) or a division -- its
    integrality cannot be read off, and the IsInt side fact only slows the solver down."""
    if _d > 12:
        return True
    if z3.is_app(t):
        k = t.decl().kind()
        if k in (z3.Z3_OP_DIV, z3.Z3_OP_IDIV) or t.decl().name() == FL.name():
            return True
        return any(_mentions_fl_or_div(c, _d + 1) for c in t.children())
    return False


def rnd(it, r):
    """Round the exact real r to binary64 (real mode): fresh f within the error bound."""
    ex = it.ex
    r = z3.simplify(r)
    if z3.is_rational_value(r) or z3.is_int_value(r):
        # constant: round exactly with CPython
        fr = fractions.Fraction(r.numerator_as_long(), r.denominator_as_long())
        try:
            c = fr.numerator / fr.denominator
        except OverflowError:
            raise Unsupported("float overflow on constant")
        return c
    f = FL(r)  # functional: equal exact values round to equal doubles
    if z3.is_app_of(r, z3.Z3_OP_DIV) and not z3.is_rational_value(r.arg(1)) and not z3.is_int_value(r.arg(1)):
        # a quotient with a symbolic divisor: keep the query linear -- only the sign facts
        # (cross-multiplied) here; comparisons with constants are characterised exactly
        # by _mono().  Fewer facts: a sound over-approximation of the rounded value.
        num, den = r.arg(0), r.arg(1)
        nonneg = z3.Or(z3.And(num >= 0, den > 0), z3.And(num <= 0, den < 0))
        nonpos = z3.Or(z3.And(num <= 0, den > 0), z3.And(num >= 0, den < 0))
        ex.add_fact(z3.And(z3.Implies(nonneg, f >= 0), z3.Implies(nonpos, f <= 0)))
        return SFloat(f, exact=r)
    ar = z3.If(r >= 0, r, -r)
    ex.add_fact(z3.And(f - r <= EPS * ar + TINY, r - f <= EPS * ar + TINY))
    ex.add_fact(z3.And(z3.Implies(r >= 0, f >= 0), z3.Implies(r <= 0, f <= 0)))
    # integers up to 2^53 are representable: rounding is the identity on them
    if z3.is_app_of(r, z3.Z3_OP_TO_REAL):
        ex.add_fact(z3.Implies(ar <= 2 ** 53, f == r))
    elif not _mentions_fl_or_div(r):
        ex.add_fact(z3.Implies(z3.And(z3.IsInt(r), ar <= 2 ** 53), f == r))
    ex.check(ar < FMAX, "fp-no-overflow", site="float op")
    return SFloat(f, exact=r)


def f_term(it, v):
    """Value as a term of the current float encoding."""
    if it.float_mode == "real":
        if isinstance(v, SFloat):
            return v.t
        if isinstance(v, float):
            return real_of_pyfloat(v)
        if isinstance(v, (bool, int)):
            return z3.RealVal(int(v))
        if isinstance(v, (SInt, SBool)):
            return z3.ToReal(int_term(v))
    else:
        if isinstance(v, SFloat):
            return v.t
        if isinstance(v, float):
            return z3.FPVal(v, F64)
        if isinstance(v, (bool, int)):
            if abs(int(v)) >= 2 ** 53:
                return z3.FPVal(float(v), F64)  # CPython rounds the same way (RNE)
            return z3.FPVal(float(int(v)), F64)
        if isinstance(v, (SInt, SBool)):
            return int_to_fp(it, int_term(v))
    raise Unsupported(f"float term of {type(v).__name__}")


def bv_int(it, bv):
    """SInt whose term is the signed value of a 64-bit vector (remembered for int->fp)."""
    t = z3.BV2Int(bv, True)
    it.ex.bv_of[t.get_id()] = (t, bv)
    return SInt(t)


def int_to_fp(it, t):
    # BV2Int(x) produced by a bit-vector backed input or by int(float): stay in BV
    ent = it.ex.bv_of.get(t.get_id())
    if ent is not None:
        return z3.fpSignedToFP(RNE, ent[1], F64)
    it.ex.check(z3.And(t > -(2 ** 62), t < 2 ** 62), "fp-int-in-64bit", site="int->float")
    return z3.fpSignedToFP(RNE, z3.Int2BV(t, 64), F64)


def to_float(it, v):
    """float(v) for an int-like / float-like value."""
    if isinstance(v, (float, SFloat)):
        return v
    if isinstance(v, (bool, int)):
        try:
            return float(v)
        except OverflowError as e:
            raise PyRaise(e)
    if it.float_mode == "real":
        return rnd(it, z3.ToReal(int_term(v)))
    return SFloat(int_to_fp(it, int_term(v)))


def float_binop(it, op, a, b):
    mode = it.float_mode
    if isinstance(op, (ast.Add, ast.Sub, ast.Mult, ast.Div)):
        if isinstance(op, ast.Div):
            zero = float_eq_term(it, b, 0.0) if is_floatlike(b) else (int_term(b) == 0)
            if it.decide(zero):
                it.py_raise(ZeroDivisionError, "float division by zero" if is_floatlike(a) or is_floatlike(b) else "division by zero")
        if mode == "real":
            # operands are first converted to float (rounded), except int/int true
            # division which CPython computes correctly rounded from the exact ints
            if isinstance(op, ast.Div) and is_intlike(a) and is_intlike(b):
                ta, tb = z3.ToReal(int_term(a)), z3.ToReal(int_term(b))
            else:
                ta, tb = f_term(it, to_float(it, a)), f_term(it, to_float(it, b))
            if isinstance(op, ast.Add):
                r = ta + tb
            elif isinstance(op, ast.Sub):
                r = ta - tb
            elif isinstance(op, ast.Mult):
                r = ta * tb
            else:
                r = ta / tb
            return rnd(it, r)
        ta, tb = f_term(it, a), f_term(it, b)
        if isinstance(op, ast.Div) and is_intlike(a) and is_intlike(b):
            # exact only if both are exactly representable
            for x in (a, b):
                t = int_term(x)
                it.ex.check(z3.And(t > -(2 ** 53), t < 2 ** 53), "fp-int-exact", site="int/int")
        if isinstance(op, ast.Add):
            return SFloat(z3.fpAdd(RNE, ta, tb))
        if isinstance(op, ast.Sub):
            return SFloat(z3.fpSub(RNE, ta, tb))
        if isinstance(op, ast.Mult):
            return SFloat(z3.fpMul(RNE, ta, tb))
        return SFloat(z3.fpDiv(RNE, ta, tb))
    raise Unsupported(f"float operator {type(op).__name__}")


def float_eq_term(it, a, b):
    ta, tb = f_term(it, a), f_term(it, b)
    if it.float_mode == "real":
        _mono(it, a, b)
        _mono(it, b, a)
        return ta == tb
    return z3.fpEQ(ta, tb)


def _mono(it, x, c):
    """Exact characterisation of comparisons of fl(r) with a representable constant c
    (real mode): fl(r) >= c  <=>  r above the midpoint of (pred(c), c) (ties to even)."""
    if isinstance(x, SFloat) and x.exact is not None and isinstance(c, (float, int)) and not isinstance(c, bool):
        if isinstance(c, int) and abs(c) > 2 ** 53:
            return
        c = float(c)
        if math.isinf(c) or math.isnan(c):
            return
        lo, hi = math.nextafter(c, -math.inf), math.nextafter(c, math.inf)
        if math.isinf(lo) or math.isinf(hi):
            return
        ct = real_of_pyfloat(c)
        m_lo = (real_of_pyfloat(lo) + ct) / 2
        m_hi = (real_of_pyfloat(hi) + ct) / 2
        import struct
        even = (struct.unpack("<Q", struct.pack("<d", c))[0] & 1) == 0
        r, f = x.exact, x.t

        def cmp(op, m):
            # r <op> m; a quotient num/den is compared by cross-multiplication (keeps the
            # fact linear when the divisor is symbolic: den != 0 was decided at the division)
            if z3.is_app_of(r, z3.Z3_OP_DIV):
                num, den = r.arg(0), r.arg(1)
                pos = {">": num > m * den, "<": num < m * den, "==": num == m * den}[op]
                neg = {">": num < m * den, "<": num > m * den, "==": num == m * den}[op]
                return z3.If(den > 0, pos, neg)
            return {">": r > m, "<": r < m, "==": r == m}[op]

        ge = z3.Or(cmp(">", m_lo), z3.And(cmp("==", m_lo), z3.BoolVal(even)))
        le = z3.Or(cmp("<", m_hi), z3.And(cmp("==", m_hi), z3.BoolVal(even)))
        it.ex.add_fact(z3.And((f >= ct) == ge, (f <= ct) == le))


def float_order(it, op, a, b):
    ta, tb = f_term(it, a), f_term(it, b)
    if it.float_mode == "real":
        _mono(it, a, b)
        _mono(it, b, a)
        t = {"<": ta < tb, "<=": ta <= tb, ">": ta > tb, ">=": ta >= tb}[op]
    else:
        t = {"<": z3.fpLT(ta, tb), "<=": z3.fpLEQ(ta, tb), ">": z3.fpGT(ta, tb), ">=": z3.fpGEQ(ta, tb)}[op]
    return mk_bool(t)


def float_ne_zero(it, v):
    if it.float_mode == "real":
        return v.t != 0
    return z3.Not(z3.fpIsZero(v.t))


def float_to_int(it, v):
    """int(float): truncation toward zero; ValueError on NaN, OverflowError on inf."""
    if isinstance(v, float):
        try:
            return int(v)
        except (ValueError, OverflowError) as e:
            raise PyRaise(e)
    if it.float_mode == "real":
        t = v.t
        return mk_int(z3.If(t >= 0, z3.ToInt(t), -z3.ToInt(-t)))
    t = v.t
    if it.decide(z3.fpIsNaN(t)):
        it.py_raise(ValueError, "cannot convert float NaN to integer")
    if it.decide(z3.fpIsInf(t)):
        it.py_raise(OverflowError, "cannot convert float infinity to integer")
    big = z3.FPVal(2.0 ** 62, F64)
    if not it.decide(z3.And(z3.fpLT(t, big), z3.fpGT(t, z3.fpNeg(big)))):
        raise Unsupported("int(float) beyond 2^62 in fp mode")
    bv = z3.fpToSBV(RTZ, t, z3.BitVecSort(64))
    return bv_int(it, bv)


def float_round(it, v, nd=None):
    if nd is not None:
        if isinstance(v, float) and isinstance(nd, int):
            return round(v, nd)
        raise Unsupported("round(x, n) on symbolic float")
    if isinstance(v, float):
        try:
            return round(v)
        except (ValueError, OverflowError) as e:
            raise PyRaise(e)
    if it.float_mode == "real":
        t = v.t
        fl = z3.ToInt(t)
        frac = t - z3.ToReal(fl)
        half = z3.RealVal(1) / 2
        return mk_int(z3.If(frac < half, fl, z3.If(frac > half, fl + 1, z3.If(fl % 2 == 0, fl, fl + 1))))
    t = v.t
    if it.decide(z3.fpIsNaN(t)):
        it.py_raise(ValueError, "cannot convert float NaN to integer")
    if it.decide(z3.fpIsInf(t)):
        it.py_raise(OverflowError, "cannot convert float infinity to integer")
    big = z3.FPVal(2.0 ** 62, F64)
    if not it.decide(z3.And(z3.fpLT(t, big), z3.fpGT(t, z3.fpNeg(big)))):
        raise Unsupported("round(float) beyond 2^62 in fp mode")
    ri = z3.fpRoundToIntegral(RNE, t)
    return bv_int(it, z3.fpToSBV(RTZ, ri, z3.BitVecSort(64)))


# ------------------------------------------------------------------ ints
def _mask_runs(mask):
    runs = []
    i = 0
    while mask >> i:
        if (mask >> i) & 1:
            j = i
            while (mask >> j) & 1:
                j += 1
            runs.append((i, j))
            i = j
        else:
            i += 1
    return runs


def int_and_const(t, mask):
    """t & mask for a concrete mask >= 0 (two's complement semantics via Euclidean mod)."""
    if mask == 0:
        return z3.IntVal(0)
    parts = []
    for lo, hi in _mask_runs(mask):
        parts.append(((t / (2 ** lo)) % (2 ** (hi - lo))) * (2 ** lo))
    return z3.Sum(parts) if len(parts) > 1 else parts[0]


# ---- bit-field bookkeeping -----------------------------------------------------------
# A term may be registered as a sum of disjoint bit fields  sum_i f_i * 2^shift_i  with
# 0 <= f_i < 2^width_i *proved* under the path condition.  Masks and shifts that select
# whole fields are then answered structurally (this is the "fields do not overlap"
# argument of the packed formats); everything else falls back to div/mod arithmetic.
_WIDTHS = [1, 2, 3, 4, 5, 6, 7, 8, 10, 12, 14, 16, 18, 20, 24, 32, 40, 48, 56, 64]


def prove(it, cond):
    """pc |- cond ?  (short budget; False when unknown)"""
    ex = it.ex
    ms = ex._model_says(cond)
    if ms is False:
        return False
    r = ex._query(z3.Not(cond))
    return r == z3.unsat


def width_of(it, t):
    t = z3.simplify(t)
    if z3.is_int_value(t):
        v = t.as_long()
        return v.bit_length() if v >= 0 else None
    key = ("w", t.get_id(), tuple(it.ex.prefix[: it.ex.pos]))
    if key in it.ex.bitf_cache:
        return it.ex.bitf_cache[key]
    w = None
    if prove(it, t >= 0):
        for cand in _WIDTHS:
            if prove(it, t < 2 ** cand):
                w = cand
                break
    it.ex.bitf_cache[key] = w
    return w


def fields_of(it, v, probe=False):
    """-> list of (shift, width, term, origin) or None"""
    if isinstance(v, (bool, int)):
        v = int(v)
        if v < 0:
            return None
        return [(0, max(v.bit_length(), 1), z3.IntVal(v), None)] if v else []
    t = int_term(v)
    ent = it.ex.bitf.get(t.get_id())
    if ent is not None:
        return ent[1]
    if probe:
        w = width_of(it, t)
        if w is not None:
            return [(0, w, t, None)]
    return None


def reg_fields(it, t, fields):
    fields = sorted(fields, key=lambda f: f[0])
    it.ex.bitf[t.get_id()] = (t, fields)


def _disjoint(fields):
    fs = sorted(fields, key=lambda f: f[0])
    for x, y in zip(fs, fs[1:]):
        if x[0] + x[1] > y[0]:
            return False
    return True


def _merge_adjacent(it, fields):
    """Merge neighbouring extractions of one source:  (src>>a)%2^w1 and (src>>(a+w1))%2^w2."""
    fs = sorted(fields, key=lambda f: f[0])
    out = []
    for f in fs:
        if out:
            p = out[-1]
            if p[3] is not None and f[3] is not None and p[3][0].eq(f[3][0]) \
                    and p[0] + p[1] == f[0] and p[3][1] + p[1] == f[3][1]:
                src, lo = p[3]
                w = p[1] + f[1]
                term = z3.simplify((src / (2 ** lo)) % (2 ** w)) if lo else z3.simplify(src % (2 ** w))
                out[-1] = (p[0], w, term, (src, lo))
                continue
        out.append(f)
    return out


def fields_sum_term(it, fields):
    """The int term denoted by a field list; a single full-source extraction collapses."""
    fields = _merge_adjacent(it, fields)
    if len(fields) == 1:
        sh, w, term, origin = fields[0]
        if origin is not None and origin[1] == 0 and sh == 0:
            src = origin[0]
            sw = width_of(it, src)
            if sw is not None and sw <= w:
                return src, fields
        return (term * (2 ** sh) if sh else term), fields
    if not fields:
        return z3.IntVal(0), fields
    return z3.Sum([f[2] * (2 ** f[0]) if f[0] else f[2] for f in fields]), fields


def _bf_result(it, fields):
    t, fields = fields_sum_term(it, fields)
    t = z3.simplify(t)
    if z3.is_int_value(t):
        return t.as_long()
    if t.get_id() not in it.ex.bitf:
        reg_fields(it, t, fields)
    return SInt(t)


def try_bitfield_op(it, op, a, b):
    """Structural answer for << >> & | + on registered bit fields, or None."""
    if isinstance(op, ast.LShift) and isinstance(b, int) and not isinstance(b, bool) and b >= 0:
        fa = fields_of(it, a, probe=True)
        if fa is None:
            return None
        return _bf_result(it, [(s + b, w, t, o) for s, w, t, o in fa])
    if isinstance(op, ast.RShift) and isinstance(b, int) and not isinstance(b, bool) and b >= 0:
        fa = fields_of(it, a)
        if fa is None:
            return None
        out = []
        for s, w, t, o in fa:
            if s >= b:
                out.append((s - b, w, t, o))
            elif s + w <= b:
                continue
            else:
                return None
        return _bf_result(it, out)
    if isinstance(op, (ast.Add, ast.BitOr)):
        fa = fields_of(it, a)
        fb = fields_of(it, b)
        if fa is None and fb is None:
            return None
        if fa is None:
            fa = fields_of(it, a, probe=True)
        if fb is None:
            fb = fields_of(it, b, probe=True)
        if fa is None or fb is None or not _disjoint(fa + fb):
            return None
        return _bf_result(it, fa + fb)
    if isinstance(op, ast.BitAnd):
        if isinstance(a, int) and not isinstance(a, bool):
            a, b = b, a
        if not (isinstance(b, int) and not isinstance(b, bool) and b >= 0):
            return None
        fa = fields_of(it, a)
        if fa is None:
            # plain source: a mask run is an extraction of the source
            if isinstance(a, SInt) and b > 0:
                runs = _mask_runs(b)
                src = a.t
                out = []
                for lo, hi in runs:
                    term = z3.simplify((src / (2 ** lo)) % (2 ** (hi - lo))) if lo else z3.simplify(src % (2 ** (hi - lo)))
                    out.append((lo, hi - lo, term, (src, lo)))
                t = z3.simplify(int_and_const(src, b))
                if z3.is_int_value(t):
                    return t.as_long()
                reg_fields(it, t, out)
                return SInt(t)
            return None
        out = []
        for s, w, t, o in fa:
            inside = all((b >> i) & 1 for i in range(s, s + w))
            outside = not any((b >> i) & 1 for i in range(s, s + w))
            if inside:
                out.append((s, w, t, o))
            elif outside:
                continue
            else:
                return None
        return _bf_result(it, out)
    return None


def int_binop(it, op, a, b):
    if not (isinstance(a, (SInt, SBool)) or isinstance(b, (SInt, SBool))):
        raise Unsupported("int_binop on concrete")  # caller handles concrete
    if isinstance(op, (ast.LShift, ast.RShift, ast.BitAnd, ast.BitOr, ast.Add)) and not isinstance(a, SBool) and not isinstance(b, SBool):
        if isinstance(op, ast.Add) and not (fields_known(it, a) or fields_known(it, b)):
            pass
        else:
            r = try_bitfield_op(it, op, a, b)
            if r is not None:
                return r
    ta, tb = int_term(a), int_term(b)
    if isinstance(op, ast.Add):
        return mk_int(ta + tb)
    if isinstance(op, ast.Sub):
        return mk_int(ta - tb)
    if isinstance(op, ast.Mult):
        return mk_int(ta * tb)
    if isinstance(op, (ast.FloorDiv, ast.Mod)):
        if isinstance(b, (int, bool)):
            bv = int(b)
            if bv == 0:
                it.py_raise(ZeroDivisionError, "integer division or modulo by zero")
            if bv > 0:
                # z3 div/mod are Euclidean: equal to floor semantics for positive divisors
                return mk_int(ta / bv if isinstance(op, ast.FloorDiv) else ta % bv)
            # negative concrete divisor: floor(a/b) = floor(-a / -b)
            if isinstance(op, ast.FloorDiv):
                return mk_int((-ta) / (-bv))
            return mk_int(-((-ta) % (-bv)))
        if it.decide(tb == 0):
            it.py_raise(ZeroDivisionError, "integer division or modulo by zero")
        if it.decide(tb > 0):
            return mk_int(ta / tb if isinstance(op, ast.FloorDiv) else ta % tb)
        if isinstance(op, ast.FloorDiv):
            return mk_int((-ta) / (-tb))
        return mk_int(-((-ta) % (-tb)))
    if isinstance(op, ast.LShift):
        if isinstance(b, (int, bool)):
            if b < 0:
                it.py_raise(ValueError, "negative shift count")
            return mk_int(ta * (2 ** int(b)))
        return _shift_sym(it, ta, tb, left=True)
    if isinstance(op, ast.RShift):
        if isinstance(b, (int, bool)):
            if b < 0:
                it.py_raise(ValueError, "negative shift count")
            return mk_int(ta / (2 ** int(b)))
        return _shift_sym(it, ta, tb, left=False)
    if isinstance(op, (ast.BitAnd, ast.BitOr, ast.BitXor)):
        # need one concrete non-negative side
        if isinstance(a, (int, bool)) and not isinstance(b, (int, bool)):
            a, b, ta, tb = b, a, tb, ta
        if isinstance(b, (int, bool)):
            m = int(b)
            if m >= 0:
                band = int_and_const(ta, m)
                if isinstance(op, ast.BitAnd):
                    return mk_int(band)
                if isinstance(op, ast.BitOr):
                    return mk_int(ta + m - band)
                return mk_int(ta + m - 2 * band)
            if isinstance(op, ast.BitAnd):
                # a & m (m<0)  ==  a - (a & ~m)
                return mk_int(ta - int_and_const(ta, ~m))
            raise Unsupported("bit-or/xor with negative constant")
        return _bitop_sym(it, op, ta, tb)
    if isinstance(op, ast.Pow):
        if isinstance(b, (int, bool)) and 0 <= int(b) <= 8:
            r = z3.IntVal(1)
            for _ in range(int(b)):
                r = r * ta
            return mk_int(r)
        if isinstance(a, (int, bool)) and int(a) == 2:
            # 2 ** b for small symbolic b
            return _shift_sym(it, z3.IntVal(1), tb, left=True)
        raise Unsupported("symbolic power")
    if isinstance(op, ast.Div):
        return float_binop(it, op, a, b)
    raise Unsupported(f"int operator {type(op).__name__}")


def _shift_sym(it, ta, tb, left):
    # fork on the (small) shift amount
    if it.decide(tb < 0):
        it.py_raise(ValueError, "negative shift count")
    for k in range(0, 65):
        if it.decide(tb == k):
            return mk_int(ta * (2 ** k) if left else ta / (2 ** k))
    raise Unsupported("symbolic shift amount > 64")


def _bitop_sym(it, op, ta, tb, width=64):
    """Both operands symbolic: bit-blast when both proved within [0, 2^width)."""
    ok = z3.And(ta >= 0, ta < 2 ** width, tb >= 0, tb < 2 ** width)
    if not it.decide(ok):
        raise Unsupported("bit operation on symbolic operands outside [0, 2^64)")
    bits = []
    for i in range(width):
        x = (ta / (2 ** i)) % 2
        y = (tb / (2 ** i)) % 2
        if isinstance(op, ast.BitAnd):
            bits.append(z3.If(z3.And(x == 1, y == 1), 2 ** i, 0))
        elif isinstance(op, ast.BitOr):
            bits.append(z3.If(z3.Or(x == 1, y == 1), 2 ** i, 0))
        else:
            bits.append(z3.If(x != y, 2 ** i, 0))
    return mk_int(z3.Sum(bits))


def fields_known(it, v):
    return isinstance(v, SInt) and v.t.get_id() in it.ex.bitf


def num_order(it, op, a, b):
    if is_floatlike(a) or is_floatlike(b):
        return float_order(it, op, a, b)
    ta, tb = int_term(a), int_term(b)
    return mk_bool({"<": ta < tb, "<=": ta <= tb, ">": ta > tb, ">=": ta >= tb}[op])


def num_eq(it, a, b):
    if is_floatlike(a) or is_floatlike(b):
        return mk_bool(float_eq_term(it, a, b))
    return mk_bool(int_term(a) == int_term(b))


def neg(it, v):
    if isinstance(v, (SInt, SBool)):
        return mk_int(-int_term(v))
    if isinstance(v, SFloat):
        if it.float_mode == "real":
            return SFloat(-v.t, exact=(-v.exact if v.exact is not None else None))
        return SFloat(z3.fpNeg(v.t))
    return -v
