"""Static descriptions used in the evidence files."""
LEVELS = {
    "C04": "proof",
    "C02": "proof",
    "C06": "proof",
    "C01": "proof",
    "C05": "proof",
    "C10": "proof",
    "C14": "other",
    "C13": "other",
    "C18": "other",
    "C19": "other",
    "C03": "proof",
    "C08": "other",
    "C11": "other",
    "C20": "other",
    "C16": "other",
    "C17": "other",
}
EXPLAIN = {}
TRUSTED = [
    "pyvc VC generator (symbolic executor over the real ASTs; /verif/pyvc) and its stated Python semantics A1-A14 (DESIGN.md section 4)",
    "z3 4.x/5.x and cvc5 (SMT back ends)",
    "CPython's import-time evaluation of module constants of the current tree",
    "library models in pyvc/m_*.py (str, int(), format, datetime, re -> NFA), differentially cross-checked against CPython on every run",
]
ASSUMPTIONS = [
    "A1 int is mathematical", "A2 float is IEEE-754 binary64 RNE; int/int true division correctly rounded",
    "A3 str is a sequence of code points; modelled str methods behave as in pyvc/m_str.py",
    "A4 int(s, base) as modelled (Unicode decimals accepted; sign/space/underscore forms are outside the subset)",
    "A6 exception table; MemoryError/RecursionError/KeyboardInterrupt excluded",
    "A7 logging calls neither raise nor change program state",
    "A8 lru_cache is transparent for pure functions",
    "A10 module constants are those of the current tree",
]
