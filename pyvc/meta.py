"""Static descriptions used in the evidence files."""
LEVELS = {
    "C04": "proof",
    "C02": "proof",
    "C06": "proof",
    "C01": "proof",
    "C05": "proof",
    "C10": "proof",
    "C14": "other",
    "C13": "other",
    "C18": "other",
    "C19": "other",
    "C03": "proof",
    "C08": "other",
    "C11": "other",
    "C20": "other",
    "C16": "other",
    "C17": "other",
    "C07": "other",
    "C09": "other",
    "C15": "other",
    "C12": "other",
}
EXPLAIN = {}
TRUSTED = [
    "pyvc VC generator (symbolic executor over the real ASTs; /verif/pyvc) and its stated Python semantics A1-A14 (DESIGN.md section 4)",
    "z3 4.x/5.x and cvc5 (SMT back ends)",
    "CPython's import-time evaluation of module constants of the current tree",
    "library models in pyvc/m_*.py (str, int(), format, datetime, re -> NFA), differentially cross-checked against CPython on every run",
]
ASSUMPTIONS = [
    "A1 int is mathematical", "A2 float is IEEE-754 binary64 RNE; int/int true division correctly rounded",
    "A3 str is a sequence of code points; modelled str methods behave as in pyvc/m_str.py",
    "A4 int(s, base) as modelled (Unicode decimals accepted; sign/space/underscore forms are outside the subset)",
    "A6 exception table; MemoryError/RecursionError/KeyboardInterrupt excluded",
    "A7 logging calls neither raise nor change program state",
    "A8 lru_cache is transparent for pure functions",
    "A10 module constants are those of the current tree",
]

# what each partial claim leaves undecided (repeated in the evidence; details in DESIGN.md section 5)
PROP_ASSUMPTIONS = {
    "C01": ["serial read segmentation (bytes_read) is checked natively and exhaustively for short streams only (bounded, not proved)"],
    "C05": ["parsers outside the symbolic reach (0418, 3220) only have a bounded native stand-in; 31DA, 1030 and 2411 are decided modularly (31DA: 18 field decoders under their own contracts, parse_capabilities by exhaustive native enumeration of its 65 536 inputs; 1030: the inner per-parameter decoder under its own contract; 2411: hex_to_temp / hex_to_percent by their C04 contracts, the 23-byte forms only in the thorough tier)"],
    "C07": ["asyncio.wait_for honours its timeout and the loop keeps running (assumed): 'never hangs' is that contract plus the structural obligation that send_cmd suspends only there",
            "episodes of at most 3 outside events with one or two callers (bounded); transport write failures, the impersonation notice and more than two concurrent callers are not explored"],
    "C09": ["episodes of at most 3 outside events with one or two callers, from an idle sender (bounded in depth; nothing is claimed about longer episodes)",
            "the event loop, futures, tasks, wait_for and sleep are contracts written from CPython 3.12's documented ordering rules (FIFO ready queue, deferred first step, cancelled tasks never resume, waiter woken one hop after completion)",
            "disconnect/reconnect is explored for one caller only (episode_with_disconnect); transport write failures are not explored"],
    "C08": ["liveness (the retry budget is reached), real-time spacing, ordering under equal priority and equal clock reading, more than two callers: not decided"],
    "C11": ["the window bound is a paper lemma over the proved per-call contracts (DESIGN.md C11), not machine-checked; the gap task's timing is not decided"],
    "C13": ["about 150 composite views (schema/params/status dictionaries, OpenTherm views) are not under contract; they only have the bounded native sweep views_answer_after_a_mutated_packet_native",
            "histories are not quantified over: contracts are per stored message / per call"],
    "C12": ["convergence of the closed loop (prober, controller, timers) is a liveness property and is NOT decided; only the request set, the interpretation of RP|0005 / RP|000C and one pass of discover() are under contract",
            "get_htg_zone, Gateway.get_device and Zone._update_schema are recording call-site contracts; messages are given as decoded payloads (the decoders are under C05)"],
    "C15": ["only the association step (Child.set_parent / _get_parent / Parent._add_child) and Zone.__init__ are under contract; the schema validators (voluptuous), re-loading a schema into a fresh gateway and whole packet histories are not decided",
            "Evohome.get_htg_zone / get_dhw_zone are contracts: the zone of that index of that system, created if need be"],
    "C14": ["MultiZone._handle_msg routing of array payloads to zones is not decided"],
    "C16": ["the gateway-level snapshot -> restore -> snapshot fixpoint is not decided; only the storage form, the filter and expiry are"],
    "C17": ["zlib compress/decompress are inverse (A12); the decode loop is unrolled for at most 3 days x 3 switchpoints"],
    "C18": ["zlib rejects a blob stitched from two versions (A12); termination when the schedule keeps changing is left to the caller's timeout; at most one change per transfer is explored"],
    "C19": ["views of at most 3 entries (indexes and timestamps unbounded)"],
    "C20": ["interleavings, timing and the send-retry states are not decided"],
}
