"""Paths, decisions, obligations: the re-execution DFS of DESIGN.md section 3.2.

One `Explorer` runs one harness (a python function interpreted symbolically) to
exhaustion: every run follows a recorded prefix of decisions and extends it; when the
run ends the deepest open decision is flipped and the harness is run again.  A single
z3 solver is kept across runs with one push() per decision, so a flip only pops the
levels above it.
"""
from __future__ import annotations

import time
from dataclasses import dataclass, field

import z3

from .sym import PathAbort, Unsupported, TRUE


@dataclass
class Obligation:
    label: str
    status: str  # proved | failed | unknown
    path: int
    secs: float
    backend: str = "z3"
    inputs: dict | None = None  # model of the registered inputs (failed only)
    detail: str = ""
    site: str = ""


@dataclass
class PathEnd:
    path: int
    kind: str  # done | abort | unsupported | error
    detail: str = ""


class Explorer:
    def __init__(self, feas_ms=2000, check_ms=20000, max_paths=200000, float_mode="real",
                 fallback=None, int_mode="math"):
        self.solver = z3.Solver()
        self.solver.set("timeout", feas_ms)
        self.feas_ms = feas_ms
        self.check_ms = check_ms
        self.max_paths = max_paths
        self.float_mode = float_mode
        self.budget_s = 600.0
        self.deadline = None
        self.on_fail = None
        self.stop = False
        self.fallback = fallback  # callable(smt2 text, secs) -> 'unsat'|'sat'|'unknown'
        # DFS state
        self.prefix: list[bool] = []  # decisions to replay
        self.forced: list[bool] = []  # parallel to prefix: True if no alternative left
        self.obligations: list[Obligation] = []
        self.ends: list[PathEnd] = []
        self.n_paths = 0
        self.solver_s = 0.0
        self.max_query_s = 0.0
        self.n_queries = 0
        self.covers: dict[str, bool] = {}
        self.seen_obl: set = set()
        self.level = 0  # number of push() currently on the solver
        # per-run state
        self.pos = 0
        self.live_from = 0
        self.fresh_n = 0
        self.inputs: list = []  # (name, kind, payload) registered by sym_* intrinsics
        self.model = None
        self.run_notes: list[str] = []
        self.input_values: dict = {}
        self.exclusions: dict = {}  # label -> [predicate over named inputs]

    # ---- per run -------------------------------------------------------------
    def begin_run(self):
        self.pos = 0
        self.fresh_n = 0
        self.inputs = []
        self.input_values = {}
        self.model = None
        self.memo = {}  # lru_cache models, per run
        self.check_n = 0
        self.bv_of = {}
        self.fmt_rec = {}
        self.parse_rec = {}
        self.digit_of = {}
        self.ascii_chars = set()
        self.bitf = {}
        self.bitf_cache = {}
        self.ghosts = {}
        self.n_paths += 1

    def fresh_name(self, base):
        self.fresh_n += 1
        return f"{base}!{self.fresh_n}"

    @property
    def replaying(self):
        return self.pos < self.live_from

    def _query(self, extra=None, ms=None):
        t0 = time.time()
        if ms is not None:
            self.solver.set("timeout", ms)
        try:
            r = self.solver.check(*([extra] if extra is not None else []))
        finally:
            if ms is not None:
                self.solver.set("timeout", self.feas_ms)
        dt_ = time.time() - t0
        self.solver_s += dt_
        self.n_queries += 1
        self.max_query_s = max(self.max_query_s, dt_)
        return r

    def _model_says(self, cond):
        if self.model is None:
            return None
        try:
            v = self.model.eval(cond, model_completion=True)
        except z3.Z3Exception:
            return None
        if z3.is_true(v):
            return True
        if z3.is_false(v):
            return False
        return None

    def assume(self, cond):
        """Add cond to the path condition; abort the path if it is infeasible."""
        if cond is True:
            return
        if cond is False:
            raise PathAbort("assume(False)")
        if z3.is_true(cond):
            return
        if self.replaying:
            return  # already on the solver stack at its level
        self.solver.add(cond)
        if self._model_says(cond) is True:
            return
        r = self._query()
        if r == z3.unsat:
            raise PathAbort("assume infeasible")
        self.model = self.solver.model() if r == z3.sat else None

    def add_fact(self, cond):
        """Add a fact that is known to be consistent (e.g. definition of a fresh var)."""
        if self.replaying:
            return
        self.solver.add(cond)
        if self.model is not None and self._model_says(cond) is not True:
            self.model = None

    def decide(self, cond) -> bool:
        """Resolve a symbolic condition to a python bool, forking when both are feasible."""
        if isinstance(cond, bool):
            return cond
        if self.deadline and time.time() > self.deadline:
            raise Unsupported(f"time budget {self.budget_s}s exceeded inside a path")
        cond = z3.simplify(cond)
        if z3.is_true(cond):
            return True
        if z3.is_false(cond):
            return False
        if self.pos < len(self.prefix):
            # replay (or the flipped decision, which is the last of the prefix)
            val = self.prefix[self.pos]
            if self.pos >= self.live_from:
                self.solver.push()
                self.level += 1
                self.solver.add(cond if val else z3.Not(cond))
                self.model = None
            self.pos += 1
            return val
        # new decision
        can_t = can_f = None
        ms = self._model_says(cond)
        if ms is True:
            can_t = True
        elif ms is False:
            can_f = True
        if can_t is None:
            r = self._query(cond)
            can_t = r != z3.unsat
            if r == z3.sat:
                self.model = self.solver.model()
        if can_f is None:
            r = self._query(z3.Not(cond))
            can_f = r != z3.unsat
            if r == z3.sat and not can_t:
                self.model = self.solver.model()
        if not can_t and not can_f:
            raise PathAbort("path condition infeasible")
        val = bool(can_t)
        forced = not (can_t and can_f)
        self.prefix.append(val)
        self.forced.append(forced)
        self.solver.push()
        self.level += 1
        self.solver.add(cond if val else z3.Not(cond))
        if self._model_says(cond) is not val:
            self.model = None
        self.pos += 1
        self.live_from = self.pos
        return val

    # ---- obligations ------------------------------------------------------------
    def check(self, cond, label, site=""):
        """Emit the obligation `pc => cond` and discharge it."""
        self.check_n += 1
        if self.replaying:
            return  # emitted by the earlier run that shares this prefix
        key = (self.check_n, label, tuple(self.prefix[: self.pos]))
        if key in self.seen_obl:
            return
        self.seen_obl.add(key)
        t0 = time.time()
        if cond is True or (not isinstance(cond, bool) and z3.is_true(z3.simplify(cond))):
            self.obligations.append(Obligation(label, "proved", self.n_paths, 0.0, "simplify", site=site))
            return
        if cond is not False and self._check_conjuncts(cond):
            self.obligations.append(Obligation(label, "proved", self.n_paths, time.time() - t0, "z3", site=site))
            return
        neg = z3.BoolVal(True) if cond is False else z3.Not(cond)
        # need the full pc on the solver even when replaying: it is (levels are kept)
        self.solver.push()
        try:
            self.solver.add(neg)
            r = self._query(ms=self.check_ms)
            backend = "z3"
            inputs = None
            detail = ""
            if r == z3.unknown and self.fallback is not None:
                smt2 = self.solver.to_smt2()
                fr = self.fallback(smt2, self.check_ms / 1000.0)
                if fr == "unsat":
                    r = z3.unsat
                    backend = "cvc5"
                else:
                    detail = f"z3: {self.solver.reason_unknown()}; cvc5: {fr}"
            if r == z3.unsat:
                st = "proved"
            elif r == z3.sat:
                st = "failed"
                m = self.solver.model()
                inputs = self.extract_inputs(m)
                detail = "counter-model: " + ", ".join(
                    f"{k}={v!r}" for k, v in list(inputs.items())[:12])
            else:
                st = "unknown"
                detail = detail or f"z3: {self.solver.reason_unknown()}"
        finally:
            self.solver.pop()
        ob = Obligation(label, st, self.n_paths, time.time() - t0, backend, inputs, detail, site)
        self.obligations.append(ob)
        if st == "failed" and self.on_fail is not None and self.on_fail(ob):
            self.stop = True
            raise PathAbort("stop: counterexample reproduced")

    def _check_conjuncts(self, cond):
        """pc => (c1 and ... and cn) holds iff pc => ci holds for every i: a large conjunction (the
        equality of two structures, say) is discharged conjunct by conjunct, each a small query.
        True only when every conjunct is proved; anything else falls back to the single query,
        which also yields the counter-model."""
        parts, todo = [], [cond]
        while todo:
            c = todo.pop()
            if z3.is_and(c):
                todo.extend(c.children())
            else:
                parts.append(c)
        if len(parts) < 3:
            return False
        for c in parts:
            if z3.is_true(z3.simplify(c)):
                continue
            self.solver.push()
            try:
                self.solver.add(z3.Not(c))
                r = self._query(ms=self.check_ms)
            finally:
                self.solver.pop()
            if r != z3.unsat:
                return False
        return True

    def cover(self, label):
        """Reachability witness: this program point was reached on a feasible path."""
        if self.covers.get(label) or self.replaying:
            return
        r = self._query()
        self.covers[label] = r == z3.sat or self.covers.get(label, False)

    def extract_inputs(self, model):
        out = {}
        for name, kind, payload in self.inputs:
            try:
                out[name] = decode_input(model, kind, payload)
            except Exception as e:  # pragma: no cover
                out[name] = f"<undecodable {e}>"
        return out

    # ---- DFS driver -----------------------------------------------------------
    def next_prefix(self) -> bool:
        """Flip the deepest open decision; False when exploration is complete."""
        # decisions beyond pos were not reached in this run (cannot happen: run is deterministic)
        while self.prefix:
            val = self.prefix.pop()
            forced = self.forced.pop()
            depth = len(self.prefix)
            # pop solver levels above `depth`
            while self.level > depth:
                self.solver.pop()
                self.level -= 1
            if not forced:
                self.prefix.append(not val)
                self.forced.append(True)
                self.live_from = depth
                return True
        while self.level > 0:
            self.solver.pop()
            self.level -= 1
        return False

    def explore(self, run_once):
        """run_once() executes the harness once under the current prefix."""
        self.live_from = 0
        t_start = time.time()
        self.deadline = t_start + self.budget_s * 1.2
        while True:
            if time.time() - t_start > self.budget_s:
                self.ends.append(PathEnd(self.n_paths, "unsupported", f"time budget {self.budget_s}s exceeded after {self.n_paths} paths"))
                break
            if self.n_paths >= self.max_paths:
                self.ends.append(PathEnd(self.n_paths, "unsupported", "max_paths exceeded"))
                break
            self.begin_run()
            try:
                run_once()
                self.ends.append(PathEnd(self.n_paths, "done"))
            except PathAbort as e:
                self.ends.append(PathEnd(self.n_paths, "abort", str(e)))
            except Unsupported as e:
                self.ends.append(PathEnd(self.n_paths, "unsupported", str(e)))
            # truncate the prefix to what this run actually used
            del self.prefix[self.pos:]
            del self.forced[self.pos:]
            if self.stop or not self.next_prefix():
                break


def decode_input(model, kind, payload):
    def ev(t):
        return model.eval(t, model_completion=True)

    if kind == "int":
        return ev(payload).as_long()
    if kind == "bvint":
        return ev(payload).as_signed_long()
    if kind == "bool":
        return z3.is_true(ev(payload))
    if kind == "str":
        out = []
        for c in payload:
            if isinstance(c, int):
                out.append(chr(c))
            else:
                n = ev(c).as_long()
                out.append(chr(n) if 0 <= n <= 0x10FFFF else "�")
        return "".join(out)
    if kind == "real":
        v = ev(payload)
        if z3.is_int_value(v):
            return float(v.as_long())
        if z3.is_rational_value(v):
            return v.numerator_as_long() / v.denominator_as_long()
        return float(v.approx(20).as_fraction())
    if kind == "fp":
        v = ev(payload)
        import struct
        bv = model.eval(z3.fpToIEEEBV(v), model_completion=True).as_long()
        return struct.unpack("<d", struct.pack("<Q", bv))[0]
    if kind == "idset":
        fn, probes = payload
        out = []
        for cs in probes:
            vals = [c if isinstance(c, int) else ev(c).as_long() for c in cs]
            if z3.is_true(ev(fn(*[z3.IntVal(v) for v in vals]))):
                sid = "".join(chr(v) if 0 <= v <= 0x10FFFF else "?" for v in vals)
                if sid not in out:
                    out.append(sid)
        return out
    if kind == "const":
        return payload
    if kind == "choice":
        # payload: (term, list of python values)
        idx = ev(payload[0]).as_long()
        return payload[1][idx]
    raise ValueError(kind)
