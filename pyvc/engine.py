"""Run one harness case symbolically; replay counter-models natively."""
from __future__ import annotations

import subprocess
import tempfile
import time
import traceback

from . import api, front
from .interp import Interp
from .path import Explorer
from .sym import PathAbort, PyRaise, Unsupported


def cvc5_fallback(smt2: str, secs: float) -> str:
    """Second back end for obligations z3 leaves unknown (cvc5 CLI)."""
    txt = smt2
    if "(check-sat)" not in txt:
        txt += "\n(check-sat)\n"
    with tempfile.NamedTemporaryFile("w", suffix=".smt2", delete=True) as fh:
        fh.write("(set-logic ALL)\n" + txt)
        fh.flush()
        try:
            p = subprocess.run(["/usr/bin/cvc5", "--strings-exp", f"--tlimit={int(secs * 1000)}", fh.name],
                               capture_output=True, text=True, timeout=secs + 5)
        except (subprocess.TimeoutExpired, FileNotFoundError):
            return "unknown"
    out = p.stdout.strip().splitlines()
    return out[0] if out and out[0] in ("sat", "unsat") else "unknown"


def run_symbolic(h, case, float_mode=None, check_ms=None, max_paths=None, stop_on_repro=False,
                 budget_s=None, exclusions=None):
    """-> dict(obligations=[...], ends=[...], stats)"""
    t0 = time.time()
    ex = Explorer(feas_ms=(300 if (float_mode or h.float_mode) == "fp" else h.feas_ms), check_ms=check_ms or h.check_ms,
                  float_mode=float_mode or h.float_mode, fallback=cvc5_fallback,
                  max_paths=max_paths or 200000)
    if budget_s:
        ex.budget_s = budget_s
    if exclusions:
        ex.exclusions = exclusions
    if stop_on_repro:
        def on_fail(ob):
            fails, _sk, _err = replay_native(h, case, ob.inputs or {})
            if ob.label in fails:
                ob.detail += " [reproduced natively]"
                return True
            return False
        ex.on_fail = on_fail
    subst = {}
    for k, v in (h.subst or {}).items():
        subst[k] = v
    for k, v in (h.stubs or {}).items():
        subst[k] = v
        if hasattr(k, "__func__"):  # a classmethod named through its class: the stub takes cls first, as natively
            subst[k.__func__] = v
    it = Interp(ex, subst=subst)
    errors = []

    def once():
        from .interp import Env
        Env.OVERLAY.clear()
        from . import tasks
        try:
            r = it.call(h.fn, list(case), {})
            from .interp import SCoroutine
            if isinstance(r, SCoroutine):
                r.run()
        except PyRaise as e:
            # an exception escaping the harness itself is a harness bug (or an
            # un-caught exception of the code under contract): treat as undecided
            raise Unsupported(f"exception escaped harness: {e.value!r}")
        finally:
            tasks.abandon_all()

    try:
        ex.explore(once)
    except (Unsupported, PathAbort) as e:  # pragma: no cover
        errors.append(f"engine: {e}")
    except RecursionError:
        errors.append("engine: host recursion limit")
    except Exception:  # noqa: BLE001
        errors.append("engine crash: " + traceback.format_exc(limit=8))
    return {
        "harness": h.name,
        "case": list(map(_short, case)),
        "obligations": ex.obligations,
        "ends": ex.ends,
        "paths": ex.n_paths,
        "solver_s": ex.solver_s,
        "max_query_s": ex.max_query_s,
        "queries": ex.n_queries,
        "covers": ex.covers,
        "inlined": sorted(it.inlined),
        "errors": errors,
        "wall_s": time.time() - t0,
        "float_mode": ex.float_mode,
    }


def _short(x):
    r = repr(x)
    return r if len(r) < 80 else r[:77] + "..."


class native_stubs:
    """Context manager: patch the harness's environment-boundary stubs into the real modules
    for a native run (the same contract the symbolic run used at those call sites)."""

    def __init__(self, h):
        self.h = h
        self.saved = []

    def __enter__(self):
        import importlib
        import logging
        logging.disable(logging.CRITICAL)
        for real, spec in (self.h.stubs or {}).items():
            mod = importlib.import_module(real.__module__)
            parts = real.__qualname__.split(".")
            owner = mod
            for p in parts[:-1]:
                owner = getattr(owner, p)
            cur = owner.__dict__[parts[-1]]
            self.saved.append((owner, parts[-1], cur))
            setattr(owner, parts[-1], property(spec) if isinstance(cur, property) else
                    classmethod(spec) if isinstance(cur, classmethod) else spec)
            if len(parts) == 1:  # a module-level function: also every `from x import f` alias of it
                import sys
                for mname, m in list(sys.modules.items()):
                    if m is None or not (mname.startswith("ramses_") or mname == "asyncio"):
                        continue
                    for k, v in list(vars(m).items()):
                        if v is real and not (m is owner and k == parts[-1]):
                            self.saved.append((m, k, v))
                            setattr(m, k, spec)
        return self

    def __exit__(self, *a):
        import logging
        for owner, name, old in reversed(self.saved):
            setattr(owner, name, old)
        logging.disable(logging.NOTSET)
        return False


def run_native(h, case):
    api._GHOSTS.clear()
    try:
        _run_native(h, case)
    finally:
        for mod, name, old in reversed(api._SET_GLOBALS):
            setattr(mod, name, old)
        api._SET_GLOBALS.clear()


def _run_native(h, case):
    from . import tasks
    with native_stubs(h):
        try:
            r = h.fn(*case)
            if hasattr(r, "send"):
                import asyncio
                asyncio.run(r)
        finally:
            tasks.abandon_all()


def replay_native(h, case, inputs):
    """Run the harness under CPython with concrete inputs. -> (failures, skipped, error)"""
    api.STATE.inputs = dict(inputs)
    api.STATE.failures = []
    api.STATE.covers = set()
    try:
        run_native(h, case)
    except api.AssumeFailed:
        return [], True, None
    except Exception as e:  # noqa: BLE001
        return list(api.STATE.failures), False, f"{type(e).__name__}: {e}"
    return list(api.STATE.failures), False, None
