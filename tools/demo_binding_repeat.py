import asyncio
from ramses_rf import binding_fsm as B
class Ctx:
    def set_state(self, *a, **k): pass
class Pkt: verb=" I"; code="1FC9"; src="a"; dst="a"
class Msg: _pkt=Pkt()
async def main():
    loop=asyncio.get_running_loop()
    st=B.RespIsWaitingForOffer.__new__(B.RespIsWaitingForOffer)
    st._context=Ctx(); st._loop=loop; st._fut=loop.create_future(); st._timer_handle=None
    st.rcvd_msg(Msg())
    try:
        st.rcvd_msg(Msg()); print("PASS: the repeat is harmless")
    except asyncio.InvalidStateError as e:
        print("FAIL: the repeat raised", repr(e))
asyncio.run(main())
