#!/bin/bash
# tools/seedrun_repo.sh [seed-dir ...] : for each seeded change: git -C /repo apply, run the registered checks against /repo,
# record the verdicts in meta.json, git -C /repo checkout -- . (never leaves /repo modified)
cd "$(dirname "$0")/.."
if [ $# -eq 0 ]; then set -- seeded/*; fi
for d in "$@"; do
  [ -f "$d/patch.diff" ] || continue
  git -C /repo status --short | grep -q . && { echo "/repo is not clean"; exit 9; }
  git -C /repo apply "$PWD/$d/patch.diff" || { echo "APPLY-FAILED $d"; continue; }
  .venv/bin/python - "$d" <<'PY'
import json, subprocess, sys, os
d=sys.argv[1]
m=json.load(open(f"{d}/meta.json"))
m["results"]=[]
for prop, tier in m["checks_to_run"]:
    p=subprocess.run(["./check", prop, tier], capture_output=True, text=True)
    lines=[l for l in p.stdout.splitlines() if l.startswith(("VIOLATION","UNDECIDED","ENGINE","ERROR")) or "obligations discharged" in l]
    m["results"].append({"cmd":f"git -C /repo apply {d}/patch.diff && ./check {prop} {tier}","exit":p.returncode,
                         "detected": p.returncode==1 and any(l.startswith("VIOLATION") for l in lines),
                         "output":[l[:300] for l in lines][:8]})
    print(d, prop, tier, "exit", p.returncode, lines[-1][:120] if lines else "")
json.dump(m, open(f"{d}/meta.json","w"), indent=1)
PY
  git -C /repo checkout -- .
  rm -rf replays
done
git -C /repo status --short
