"""Debug driver: tools/dbg.py <contracts module> [name-filter] [budget_s] [float_mode]"""
import sys, time, signal, os
sys.path.insert(0, '/verif'); sys.setrecursionlimit(20000)
from pyvc import engine
from pyvc.harness import REGISTRY
import importlib
mod = importlib.import_module(sys.argv[1])
only = sys.argv[2] if len(sys.argv) > 2 else ''
budget = float(sys.argv[3]) if len(sys.argv) > 3 else 60
mode = sys.argv[4] if len(sys.argv) > 4 else None
import pyvc.path as P
if os.environ.get('SLOW'):
    _oc = P.Explorer.check
    def _ck(self, c, label, *a, **k):
        t = time.time(); r = _oc(self, c, label, *a, **k)
        if time.time() - t > float(os.environ['SLOW']): print('SLOW', '%.1f' % (time.time() - t), label, flush=True)
        return r
    P.Explorer.check = _ck
for h in REGISTRY:
    if only and only not in h.name: continue
    if h.fn.__module__ != sys.argv[1]: continue
    for case in h.case_list():
        if os.environ.get('CASE') and os.environ['CASE'] not in repr(case): continue
        orig = P.Explorer.__init__
        def init(self,*a,**k):
            orig(self,*a,**k); self.budget_s = budget
        P.Explorer.__init__ = init
        r = engine.run_symbolic(h, case, float_mode=mode, stop_on_repro=(mode=="fp"))
        P.Explorer.__init__ = orig
        bad = [o for o in r['obligations'] if o.status!='proved']
        print(h.name, case, 'paths', r['paths'], 'obl', len(r['obligations']), 'bad', len(bad), 'wall %.1f solver %.1f q %d maxq %.2f'%(r['wall_s'], r['solver_s'], r['queries'], r['max_query_s']), r['errors'], flush=True)
        for e in r['ends']:
            if e.kind not in ('done','abort'): print('   END', e.kind, e.detail[:300])
        seen=set()
        for o in bad:
            if (o.label,o.status) in seen: continue
            seen.add((o.label,o.status))
            print('   ', o.status, o.label, '%.2f'%o.secs, o.backend, o.detail[:200])
