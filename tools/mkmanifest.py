"""Regenerate MANIFEST.json from the table below (keeps it schema-valid at all times)."""
import json
import os

ROOT = os.path.dirname(os.path.dirname(os.path.abspath(__file__)))
TECH = "contract-based deductive verification: sidecar contracts on the real functions, VCs generated from the current /repo ASTs by pyvc, discharged by z3 (cvc5 on unknown); counter-models replayed on the real code"

CLAIMS = {
    "C01": dict(cat="proof", ref="DESIGN.md 5/C01",
        text="raises(Packet.from_file/from_port/from_dict) within {PacketInvalid, ValueError} for all text (unbounded-string case where the frame regex fails; every frame-regex length with all characters symbolic where it matches), raises(pkt_lifespan) within {AssertionError, ValueError}, raises(Message) within {PacketInvalid} for every schema code/verb/length inside the generator's reach, and FileTransport._reader/_frame_read deliver exactly the decodable lines in order: all SMT-discharged on the real functions",
        note="trusted: pyvc semantics incl. the unbounded-string abstraction (only total str operations), z3/cvc5, regex->NFA compiler and its accepted_lengths DP; callee contracts (pkt_lifespan, Packet.from_file, hex_to_str) are discharged by their own harnesses; serial segmentation independence is a *bounded* native exhaustive check (streams <= 7 bytes over {CR,LF,a}, all cuts), parsers 0418/3220 only by a bounded native stand-in (31DA/1030/2411: modular contracts); MQTT JSON path and real serial I/O not decided"),
    "C02": dict(cat="proof", ref="DESIGN.md 5/C02",
        text="parse/print identity of Frame, Command (_from_attrs, from_attrs, from_cli), Packet and the log reader is an SMT-discharged postcondition of the real functions for all frames of the enumerated payload lengths (exhaustive over 1..48 in the thorough tier)",
        note="trusted: pyvc encoding of Python semantics (A1-A14), z3/cvc5, regex->NFA compiler; pkt_lifespan abstracted by its call-site contract (proved under C14); the logging library's formatting is an assumed contract validated natively on every run (bounded, not counted as proved); Packet._partition proved for part lengths <= 4/2/2/3 only (bounded)"),
    "C05": dict(cat="proof", ref="DESIGN.md 5/C05",
        text="for every (code, verb, payload length, address shape) of CODES_SCHEMA inside the generator's reach and all schema-conforming payloads: the decoded payload is JSON-able, ratios/temperatures in range, reported indexes equal the frame's; decode is independent of a previously decoded packet (caches modelled); arrays decode element-wise; plus syntactic purity obligations on the decoder modules -- SMT-discharged on the real parsers",
        note="trusted: pyvc semantics, z3/cvc5; element-wise lemma proved for free elements only for k=2 of 0009/2309/30C9, otherwise for elements sharing one symbolic body; hex_to_str by contract (proved for <= 3 bytes); parsers 0418/3220 outside reach: bounded native stand-in, not counted; 31DA / 1030 / 2411 decided modularly (field decoders, the inner per-parameter decoder and the value codecs under their own contracts; parse_capabilities by exhaustive enumeration of its 65 536 inputs; 2411's 23-byte forms only in the thorough tier); quick tier = stateful/API codes at their shortest length"),
    "C06": dict(cat="proof", ref="DESIGN.md 5/C06",
        text="L-echo, L-reply and L-miss (one-dimension near misses) are SMT-discharged postconditions of the real pkt_header/_pkt_idx/_ctx/_hdr/rx_header and WantEcho/WantRply.pkt_rcvd for every RQ/W (code, payload length) of the schema, all ids and all schema-conforming payloads; four genuine exceptions are listed known findings and the obligations are re-proved outside their input classes",
        note="trusted: pyvc semantics, z3/cvc5, regex->NFA compiler; ProtocolContext.set_state abstracted by a recording call-site contract (the real one is under C08); pkt_lifespan by its call-site contract; quick tier = codes of CODE_API_MAP at their shortest payload length, thorough = every code/length of CODES_SCHEMA"),
    "C04": dict(cat="proof", ref="DESIGN.md 5/C04",
        text="every codec obligation (decode spec, encode/decode inverses, no silent wrap, id bijection) is an SMT-discharged postcondition of the real function for all inputs",
        note="trusted: pyvc encoding of Python semantics (A1-A4, A11), z3/cvc5; float rounding over-approximated by the relative-error bound with an exact IEEE-754 second back end"),
    "C10": dict(cat="proof", ref="DESIGN.md 5/C10",
        text="_is_wanted_addrs == the property's predicate (sound and complete, one equality) for abstract block/known lists of any size, all enforcement settings, any active gateway; the receive and send gates (filter mixin and PortProtocol.send_cmd) hand on iff wanted; _set_active_hgi never activates a blocked id; Gateway.get_device raises LookupError and creates nothing for blocked/unlisted ids: SMT-discharged on the real functions",
        note="trusted: pyvc semantics incl. abstract id sets (membership = uninterpreted predicate), z3; _BaseProtocol.pkt_received/send_cmd, device_factory and _send_impersonation_alert are environment stubs; not decided: the dispatcher's routing after the LookupError fence; noted, not claimed: the impersonation alert (a 7FFF from the gateway itself) is transmitted before the filter refuses a command"),
    "C14": dict(cat="other", ref="DESIGN.md 5/C14",
        text="partial: expiry arithmetic of Message._expired (exact threshold 2L+3s, monotone, payload-derived 1F09 lifetimes incl. 0, no memory of a clock that was behind -- with one listed known finding at the instant the fraction equals the -1.0 sentinel), pkt_lifespan == the lifetime table, the store rule of _MessageDB._handle_msg over the whole (code,verb,ctx) view, the read rule of _msg_value_msg ('expired => not reported' is a listed known finding), detect_array_fragment merges only within one device, _delete_msg deletes only the message given: SMT-discharged postconditions of the real functions",
        note="trusted: pyvc semantics (datetime/timedelta model, float division of integer microseconds compared exactly), z3; not decided: MultiZone._handle_msg routing of array payloads to zones"),
    "C13": dict(cat="other", ref="DESIGN.md 5/C13",
        text="partial: (1) Gateway.get_state and _restore_cached_packets resume the engine on every exit (return, an exception from any callee, cancellation at any await); (2) Engine._pause/_resume and Gateway._pause/_resume/get_state on the real engine state for every sequence of up to 4 calls: refused iff already (not) paused, handler / read-only flag / discovery flag restored, the engine lock never left held; (3) value views: the _msg_value_msg lookup every thin view goes through, System.heat_demands / relay_demands, SystemBase.heat_demand, Zone.heat_demand over real TrvActuators, _transform -- on real Messages decoded from symbolic frames (sentinels included) return a value or None and never raise; (4) Message._expired is total; detect_array_fragment merges only within one device -- SMT-discharged on the real functions",
        note="trusted: pyvc semantics, z3; lock/protocol/transport/loop are typestate contracts; about 150 composite views (schema/params/status dictionaries, OpenTherm views) are NOT under contract -- they only have a bounded native sweep (system logs replayed into a real Gateway with one schema-conforming sentinel-biased payload mutated, every view evaluated), never counted as proved; histories are not quantified over"),
    "C18": dict(cat="other", ref="DESIGN.md 5/C18",
        text="partial: Schedule._get_schedule and set_schedule release the zone lock on every exit (normal, error from any send or version query, cancellation); a failed or cancelled write leaves the cached schedule as it was; and the fetch loop with the real _update_payload_set / _proc_payload_set, from any fragment set left behind (0-3 slots, each empty / stale / current) while the controller's schedule changes at most once at any exchange (0-3 -> 0-3 fragments): ends with a schedule of ONE version at the change counter read, or a protocol error, never a RuntimeError, and never writes to the empty set zones share or to another zone's set -- SMT-discharged on the real coroutines; plus the syntactic try/finally obligation",
        note="trusted: pyvc semantics, z3; tcs._obtain_lock, _schedule_version, async_send_cmd, Message() are contracts that may raise/cancel at will; fragz_to_full_sched by contract: a set stitched from two versions is rejected (zlib's checksum, A12); NOT decided: termination when the schedule keeps changing (left to the caller's timeout), more than one change per transfer, concurrent transfers beyond the lock"),
    "C19": dict(cat="other", ref="DESIGN.md 5/C19",
        text="the map contracts of FaultLog._insert_into_map (null entry, reported entry at the reported position, strictly newest-first, nothing invented, positions within 0..62, read-through step, push-down), handle_msg/_process_msg (never raises, map timestamps always have their log entry) and the four views (never raise) are SMT-discharged on the real functions for views of at most 3 entries with unbounded indexes/timestamps; the inductive clause ('no entry believed lower than it is') and the push-down clause fail on the unchanged tree and are listed known findings with input classes outside which they are re-proved",
        note="bounded in one dimension: the number of entries of the view (<= 3; the shift heuristic only compares relative positions); trusted: pyvc semantics, z3; FaultLogEntry.from_msg by contract; timestamps are integers (the code only compares them); NOT decided: get_faultlog's request loop (_is_getting / _is_current flags), whole histories"),
    "C03": dict(cat="proof", ref="DESIGN.md 5/C03",
        text="for every entry of CODE_API_MAP and symbolic arguments over the documented domain: the command has the registered verb/code, its payload is in the schema regex's language, the library's own decoder accepts the frame and (where stated) the decoded payload carries the values passed in; out-of-domain zone indexes are refused -- SMT-discharged on the real constructors, Command.__init__ and parsers; six constructors violate it on the unchanged tree and are listed known findings",
        note="trusted: pyvc semantics, z3; the temperature codec and hex_to_str by their C04/C05 contracts (modular); get_opentherm_data over all 256 msg-ids by an exhaustive native enumeration (its parity computation is outside the solver's reach) -- complete for that finite domain but not an SMT proof; set_fan_param / put_bind only for sample parameters / code lists"),
    "C09": dict(cat="other", ref="DESIGN.md 5/C09",
        text="partial, bounded in depth: the real ProtocolContext (send_cmd, _check_buffer_for_cmd, set_state with effect_state and expire_state_on_timeout, _send_cmd, the state classes) is executed against an event-loop contract that only admits schedules asyncio can produce, with the real coroutines suspended at their awaits; for EVERY episode of at most 3 outside events (echo / reply / unrelated packet arrives, the running timer expires, the caller's timeout fires; with one caller also: the connection is lost / made) interleaved anywhere with the loop's queued work, with one caller or two: no exception reaches the loop's exception handler (no internal consistency check trips), every caller is answered, when traffic stops the sender is idle (inactive if disconnected) with nothing in flight or queued, a send while disconnected is refused at once, and a fresh command is then transmitted -- SMT-discharged over all those schedules",
        note="bounded: episodes of <= 3 events from an idle sender, nothing is claimed beyond; loop / Future / Task / wait_for / sleep are contracts from CPython 3.12's ordering rules (an assumption); disconnect/reconnect only for one caller; write failures and whole-history liveness are NOT decided"),
    "C07": dict(cat="other", ref="DESIGN.md 5/C07",
        text="partial: over the same bounded episodes as C09 (one or two callers, <= 3 outside events, any realisable interleaving) a send returns a packet of ITS OWN command -- the reply when one is awaited -- or raises an error of the protocol-error family, never another command's packet, and fails without its caller's timeout only after its whole retry budget was transmitted; structurally, send_cmd suspends at exactly one place, asyncio.wait_for(fut, min(qos.timeout, 20 s))",
        note="'never hangs / finishes within the caller's timeout' rests on asyncio.wait_for's contract (assumed) plus the structural obligation; header correlation itself is C06; the impersonation notice, transport faults and more than two concurrent callers are NOT decided"),
    "C08": dict(cat="other", ref="DESIGN.md 5/C08",
        text="partial: ProtocolContext.__init__ caps (retry limit 3, buffer 32); _check_buffer_for_cmd (nothing dequeued while a future is pending, queue order, done futures skipped, tx_limit, exactly one send); by executing the real set_state / effect_state / expire_state_on_timeout / _send_cmd step by step against typestate contracts of the loop, futures and queue, for every loss pattern over the attempts and all max_retries 0..5: at most 1 + min(max_retries,3) transmissions, exactly that many before a failure, waits of 1/2/4/8 x the timeout, the arriving packet completes the send, nothing is sent after the caller is answered; send_cmd queues (priority, time, command, qos, future), waits min(qos.timeout, 20 s), and a caller timing out while queued neither disturbs an equal command in flight nor the queue; QosParams keeps max_retries (0 stays 0) -- SMT-discharged",
        note="trusted: pyvc semantics; asyncio loop (FIFO call_soon, tasks), Future, wait_for and PriorityQueue are typestate contracts written in the harness (assumption A13); NOT decided: that the budget is reached when the caller's timeout allows (liveness), real-time spacing, start order under equal priority AND equal dt.now(), more than two callers"),
    "C11": dict(cat="other", ref="DESIGN.md 5/C11",
        text="partial: per-call contracts of the real duty-cycle wrapper from an arbitrary bucket state (top-up creates no bits and caps at 60 s worth, a write waits exactly (size - level)/FILL or goes at once, exactly one debit per write even when the write raises, a debit made by another caller during the write is not lost, frame cost 330 + 10 bits/char) and of MqttTransport.write_frame (tokens capped, over-budget write dropped not queued, debt slept off, one token per accepted write, the refill clock advances on every call), over real-valued time and bits; plus syntactic obligations (PortTransport.write_frame is wrapped outermost, the gap permit is a BoundedSemaphore); the window bound follows by the telescoping lemma stated in DESIGN.md (paper lemma)",
        note="trusted: pyvc semantics incl. float operations over-approximated by the relative-error bound; perf_counter and asyncio.sleep are contracts (A14); NOT decided: eventual, once-only, in-order delivery; the timing of the MIN_INTER_WRITE_GAP task"),
    "C20": dict(cat="other", ref="DESIGN.md 5/C20",
        text="partial: for every waiting state class, _wait_for_fut_result -- whatever happened before the wait ends (message arrived, nothing arrived, the state's own timer already fired) -- returns the message and moves on, or raises an error of the binding-error family with the context in DevHasFailedBinding, one transition per wait, the step's timer cancelled; put_bind, is_phase (command and packet) and parser_1fc9 agree on the phase and the four phases are mutually exclusive on all 1FC9/10E0 frames; the context hands every binding packet it sees (sent or received) to the current state: SMT-discharged on the real functions",
        note="trusted: pyvc semantics; asyncio.wait_for / shield / Future are typestate contracts (CPython >= 3.11 semantics); NOT decided: interleavings of duplicated, echoed and third-party frames, the 3 s / 5 s timing, the send-retry states (_DevIsReadyToSendCmd)"),
    "C16": dict(cat="other", ref="DESIGN.md 5/C16",
        text="partial: (1) the textual storage format -- Packet.from_dict(repr(p)[:26], repr(p)[27:]) is an equal packet with the same timestamp for every accepted packet of the enumerated shapes, also on a whole-second timestamp; (2) the snapshot filter of Gateway.get_state keeps no request, no write other than a W|0404 longer than 7 bytes, and (unless asked) no expired packet (313F: listed known finding); (3) a restored packet expires by its age however far behind the clock was when it was first read; (4) storing a packet an entity already holds adds and removes no slot -- SMT-discharged on the real functions",
        note="trusted: pyvc semantics, z3; pkt_lifespan by its call-site contract; device/system message stores are contracts; NOT decided: the gateway-level fixpoint snapshot -> fresh gateway -> snapshot"),
    "C17": dict(cat="other", ref="DESIGN.md 5/C17",
        text="partial: per-switchpoint inverse (_struct_unpack o _struct_pack == id for all zones, days, the 288 times, setpoints 5.00-35.00 on the 0.01 grid and on/off), time-of-day text inverse, the real decode loop of fragz_to_full_sched on the bytes _struct_pack produced gives back the schedule (1-3 days x 1-3 switchpoints unrolled), Command.set_schedule_fragment -> schema-valid W|0404 of <= 48 bytes that parser_0404 decodes to the same fragment (zones, HW, FA), and the payload-set invariant of _update_payload_set incl. the restart when zlib rejects a full set: SMT-discharged",
        note="trusted: pyvc semantics incl. the struct model for '< x B H', z3; zlib round trip assumed (A12); the decode loop is bounded by the unrolling stated; fragment sizes of real compressed schedules only by a bounded native sweep"),
}

CLAIMS["C15"] = dict(cat="other", ref="DESIGN.md 5/C15",
    text="partial: the association step every parent/child link goes through -- Child.set_parent with _get_parent and Parent._add_child, on real Controller / Evohome / Zone / DhwZone / UfhController and device objects, for every device class, ANY parent (two controllers), any child id, either sensor flag, twice in a row, with a role possibly held by another device: a step either raises and changes nothing, or returns with parent / controller / system / child tables / role slot set consistently and within the role rules; a device is never moved to another parent or controller, a taken role (zone sensor, DHW sensor, DHW / heating valve, appliance control) is never handed to another device, and a zone is only looked up below the configured maximum; Zone.__init__ refuses an index at or above the maximum and a duplicate -- SMT-discharged on the real functions; one listed known finding (a relay accepted as both DHW valves)",
    note="trusted: pyvc semantics, z3; Evohome.get_htg_zone / get_dhw_zone are contracts (they go through the third-party validator); NOT decided: that the reported schema is accepted by the voluptuous validators, that it re-loads into an equal gateway, whole packet histories (only states that two association steps can reach, plus one role held by another device)")

NA = {
    "C12": "Convergence of discovery against an arbitrary controller is a closed-loop liveness property over ~60 dynamically dispatched entity classes, timers and an external device; no per-function contract states it.",
}
PENDING = "contracts for this property are planned (DESIGN.md section 5) but not yet built in /verif; not claimed until its check exists"
ALL = [f"C{i:02d}" for i in range(1, 21)]


def main():
    hooks = {
        "guard": "RAMSES_RF_VERIF",
        "enable": "export RAMSES_RF_VERIF=1 (set by ./check); no source hooks are needed: contracts are sidecar files and the real ASTs are read from /repo/src on every run",
        "baseline_off_cmd": "cd /repo && /venv/bin/python -m pytest -ra -q -p no:cacheprovider --timeout=900 --continue-on-collection-errors",
        "source_commits": [],
        "add_only": True,
    }
    checks = []
    for pid in sorted(CLAIMS):
        c = CLAIMS[pid]
        checks.append({
            "property_id": pid, "quick_cmd": f"./check {pid} quick", "thorough_cmd": f"./check {pid} thorough",
            "evidence_file": f"evidence/{pid}.json", "replay_cmd_template": f"./check {pid} --replay {{path}}",
            "engine": "pyvc",
            "level_claimed": {"category": c["cat"], "text": c["text"], "design_ref": c["ref"]},
            "level_note": c["note"], "technique": c.get("tech", TECH),
        })
    na = [{"property_id": k, "reason": v} for k, v in NA.items()]
    na += [{"property_id": k, "reason": PENDING} for k in ALL if k not in CLAIMS and k not in NA]
    m = {
        "version": 1, "setup_cmd": "./setup.sh", "hooks": hooks,
        "engines": [{"name": "pyvc", "path": "pyvc/", "serves_properties": sorted(CLAIMS),
                     "kind_free_text": "verification-condition generator: symbolic execution of the real Python ASTs against sidecar contracts; obligations discharged by z3 (cvc5 on unknown); counter-models replayed on the real code"}],
        "checks": checks, "not_applicable": sorted(na, key=lambda d: d["property_id"]),
        "notes": "work in progress: properties are added as their contracts are completed; fixes of genuine defects are 'fix:' commits in /repo, listed in known_findings.jsonl",
    }
    with open(os.path.join(ROOT, "MANIFEST.json"), "w") as fh:
        json.dump(m, fh, indent=1)
    import jsonschema
    jsonschema.validate(m, json.load(open("/root/.vp/MANIFEST.schema.json")))
    print("MANIFEST ok:", [c["property_id"] for c in checks])


if __name__ == "__main__":
    main()
