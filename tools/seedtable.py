"""Print the round-3 table of DESIGN.md section 10 from seeded/*/meta.json (summary, verdict of the last run against /repo)."""
import glob, json, os, re
rows = []
for p in sorted(glob.glob(os.path.join(os.path.dirname(__file__), "..", "seeded", "*", "meta.json"))):
    m = json.load(open(p))
    if m.get("round") != 3:
        continue
    res = m.get("results") or []
    caught = []
    for r in res:
        if r.get("detected"):
            hs = sorted({re.sub(r"-[0-9a-f]{10}\.json.*", "", re.sub(r".*replays/C\d\d-", "", l)) for l in r["output"] if l.startswith("VIOLATION")})
            prop = re.search(r"check (C\d\d)", r["cmd"]).group(1)
            caught.append(prop + " " + ", ".join("`%s`" % h for h in hs[:3]))
    rows.append((m["seed"], m.get("summary", ""), "; ".join(caught) if caught else ("NOT CAUGHT" if res else "(not run)")))
print("| seed | change | caught by |\n|------|--------|-----------|")
for r in rows:
    print("| %s | %s | %s |" % r)
