#!/bin/bash
# tools/runall.sh [tier] : run every registered check against /repo, one after the other; summary lines to stdout
cd "$(dirname "$0")/.."
tier=${1:-quick}
for p in $(.venv/bin/python -c "import json;print(' '.join(c['property_id'] for c in json.load(open('MANIFEST.json'))['checks']))"); do
  out=$(./check $p $tier 2>&1); rc=$?
  echo "$p exit=$rc $(echo "$out" | grep -E "obligations discharged" | tail -1 | cut -c1-200)"
  echo "$out" | grep -E "^VIOLATION|^UNDECIDED|^ENGINE|^ERROR" | head -5
done
