#!/bin/bash
# tools/seedconfirm.sh <out-dir> <k> : confirm a candidate seeded change in a scratch worktree of /repo's HEAD:
# demo<k>.py exits 0 on the unchanged tree, non-zero with change<k>.diff; the suite's result with the change. Prints one JSON line.
od=$1; k=$2
wt=$(mktemp -d /tmp/seedconf.XXXXXX)
git -C /repo worktree add -q --detach "$wt/repo" HEAD || exit 9
export PYTHONPATH="$wt/repo/src" PYTHONDONTWRITEBYTECODE=1
( cd "$wt" && timeout 300 /venv/bin/python "$od/demo$k.py" >"$wt/clean.out" 2>&1 ); c0=$?
( cd "$wt/repo" && git apply "$od/change$k.diff" ) || { echo "{\"apply\":\"failed\"}"; git -C /repo worktree remove --force "$wt/repo"; rm -rf "$wt"; exit 9; }
( cd "$wt" && timeout 300 /venv/bin/python "$od/demo$k.py" >"$wt/patched.out" 2>&1 ); c1=$?
suite=$(cd "$wt/repo" && /venv/bin/python -m pytest -q -p no:cacheprovider --timeout=900 2>&1 | tail -40)
summary=$(echo "$suite" | grep -E "passed|failed" | tail -1)
failed=$(echo "$suite" | grep -E "^FAILED" | cut -c1-90 | tr '\n' ';')
python3 - "$c0" "$c1" "$summary" "$failed" "$(tail -3 $wt/patched.out | cut -c1-300)" <<'PY'
import json,sys
print(json.dumps({"demo_exit_on_unchanged_tree":int(sys.argv[1]),"demo_exit_with_patch":int(sys.argv[2]),"test_suite_with_patch":sys.argv[3].strip("= "),"failed_tests":sys.argv[4],"demo_tail":sys.argv[5]}))
PY
git -C /repo worktree remove --force "$wt/repo"; rm -rf "$wt"
