"""Demonstration of two schedule-transfer defects (single-fragment schedules) on the real code."""
import asyncio, sys
from ramses_rf.system import schedule as S
sched=[{"day_of_week":d,"switchpoints":[{"time_of_day":"06:30","heat_setpoint":21.0}]} for d in range(7)]
frags=S.full_sched_to_fragz({"zone_idx":"01","schedule":sched})
blob="".join(frags)   # pretend the controller packs it in one fragment (<= 41 bytes is what a controller sends; here we only need ONE fragment)
class Tcs:
    zone_lock_idx=None
    async def _obtain_lock(self,i): self.zone_lock_idx=i
    def _release_lock(self): self.zone_lock_idx=None
    async def _schedule_version(self,force_io=False): return 5,True
class Ctl: id="01:145038"
class Zone:
    def __init__(s, idx): s.id="01:145038_"+idx; s.idx=idx; s.ctl=Ctl(); s.tcs=Tcs(); s._gwy=None
bad=0
a=S.Schedule(Zone("01")); b=S.Schedule(Zone("02"))
pl={"frag_number":1,"total_frags":1,"fragment":blob,"frag_length":len(blob)//2}
a._payload_set[0]=None
a._payload_set=a._update_payload_set(a._payload_set, dict(pl))
print("1) zone 01 after its only fragment:", a._full_schedule.keys(), "| zone 02's fragment set:", [type(x).__name__ for x in b._payload_set], "| EMPTY_PAYLOAD_SET:", [type(x).__name__ for x in S.EMPTY_PAYLOAD_SET])
if "schedule" not in a._full_schedule or b._payload_set != [None] or S.EMPTY_PAYLOAD_SET != [None]: bad+=1
S.EMPTY_PAYLOAD_SET[:] = [None]
# 2) a zone that held a 2-fragment set; the controller now has a 1-fragment schedule
c=S.Schedule(Zone("03")); c._payload_set=[None,None]
class Gwy:
    async def async_send_cmd(self, cmd, **kw): return "pkt"
c._gwy=Gwy()
S.Message=lambda pkt: type("M",(),{"payload":dict(pl)})()
try:
    asyncio.run(c._get_schedule(force_io=True)); print("2) transfer ended with", list(c._full_schedule))
    if "schedule" not in c._full_schedule: bad+=1
except Exception as e:
    print("2) transfer raised", type(e).__name__, e); bad+=1
print("FAIL" if bad else "PASS"); sys.exit(1 if bad else 0)
