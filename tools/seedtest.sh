#!/bin/bash
# tools/seedtest.sh <seed-dir> <k> <prop> [tier] : apply <seed-dir>/change<k>.diff to a scratch worktree of /repo's HEAD,
# run ./check <prop> <tier> against it (VERIF_REPO), print the verdict, remove the worktree.
sd=$1; k=$2; prop=$3; tier=${4:-quick}
wt=$(mktemp -d /tmp/seedrun.XXXXXX)
git -C /repo worktree add -q --detach "$wt/repo" HEAD || exit 9
( cd "$wt/repo" && git apply "$sd/change$k.diff" ) || { echo "APPLY-FAILED $sd $k"; git -C /repo worktree remove --force "$wt/repo"; rm -rf "$wt"; exit 9; }
out=$(VERIF_REPO="$wt/repo" ./check "$prop" "$tier" 2>&1); rc=$?
echo "SEED $(basename $sd) change$k prop=$prop tier=$tier exit=$rc"
echo "$out" | grep -E "^VIOLATION|^KNOWN|^UNDECIDED|^ENGINE|^ERROR|obligations discharged" | cut -c1-260 | head -12
git -C /repo worktree remove --force "$wt/repo"; rm -rf "$wt"
