"""Caller's timeout and the echo timer expiring in the same loop iteration, on the real asyncio loop."""
import asyncio, logging, sys, time
logging.disable(logging.CRITICAL)
from ramses_tx import protocol_fsm as fsm
from ramses_tx.command import Command
from ramses_tx.typing import QosParams
from ramses_tx.const import Priority

unhandled=[]
async def main(extra):
    loop=asyncio.get_running_loop()
    loop.set_exception_handler(lambda l,ctx: unhandled.append(repr(ctx.get("exception") or ctx.get("message"))[:200]))
    class P: pass
    p=P(); p._loop=loop; p.hgi_id="18:000730"
    ctx=fsm.ProtocolContext(p, echo_timeout=0.05, reply_timeout=0.05)
    ctx.connection_made(None)
    await asyncio.sleep(0)
    sent=[]
    async def send_fnc(cmd): sent.append(time.monotonic())
    cmd=Command.from_attrs("RQ","01:145038","0004","0000")
    # block the loop just before both deadlines so that both timers are due in the same iteration
    loop.call_later(0.045, lambda: time.sleep(0.02))
    try:
        await ctx.send_cmd(send_fnc, cmd, Priority.DEFAULT, QosParams(max_retries=3, timeout=0.05+extra, wait_for_reply=True))
        r="pkt"
    except Exception as e: r=type(e).__name__
    await asyncio.sleep(0.3)
    return r, len(sent), repr(ctx)
for extra in (0.0, 0.0005, 0.001, 0.002, 0.005):
    unhandled.clear()
    r=asyncio.run(main(extra))
    print(extra, r, "UNHANDLED:", unhandled)
